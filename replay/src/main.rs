//! Native replay of a solver counterexample (DESIGN.md §3.7).
//! usage: verif-replay <harness-name> <file-with-byte-vectors.json>
//! The harness modules of /verif/harness are compiled into the repository's crates with
//! `--cfg verif_replay` (std BTreeMap, no Kani); the value source is the recorded bytes.
use bourse_book::verif::replay::{not_found, run_with, Outcome};

mod findings;

fn esc(s: &str) -> String {
    s.replace('\\', "\\\\").replace('"', "\\\"").replace('\n', " ")
}

fn parse_bytes(txt: &str) -> Vec<Vec<u8>> {
    // accepts [[1,2],[3]] (whitespace tolerant)
    let mut out = Vec::new();
    let mut cur: Option<Vec<u8>> = None;
    let mut num = String::new();
    let mut depth = 0;
    for c in txt.chars() {
        match c {
            '[' => {
                depth += 1;
                if depth == 2 {
                    cur = Some(Vec::new());
                }
            }
            ']' => {
                if depth == 2 {
                    if !num.is_empty() {
                        cur.as_mut().unwrap().push(num.parse().unwrap());
                        num.clear();
                    }
                    out.push(cur.take().unwrap());
                }
                depth -= 1;
            }
            ',' => {
                if depth == 2 && !num.is_empty() {
                    cur.as_mut().unwrap().push(num.parse().unwrap());
                    num.clear();
                }
            }
            d if d.is_ascii_digit() => num.push(d),
            _ => {}
        }
    }
    out
}

fn main() {
    let args: Vec<String> = std::env::args().collect();
    if args.len() >= 2 && args[1] == "--finding" {
        // concrete public-API demonstrations of recorded findings
        let roles: Vec<String> = if args.len() >= 3 { vec![args[2].clone()] } else { findings::ROLES.iter().map(|s| s.to_string()).collect() };
        for r in roles {
            match findings::run(&r) {
                Some(Some(d)) => println!("{{\"role\":\"{}\",\"present\":true,\"detail\":\"{}\"}}", r, esc(&d)),
                Some(None) => println!("{{\"role\":\"{}\",\"present\":false}}", r),
                None => println!("{{\"role\":\"{}\",\"error\":\"no demonstration\"}}", r),
            }
        }
        return;
    }
    if args.len() < 3 {
        eprintln!("usage: verif-replay <harness> <bytes.json>");
        std::process::exit(64);
    }
    let name = &args[1];
    let txt = std::fs::read_to_string(&args[2]).expect("bytes file");
    let vals = parse_bytes(&txt);
    let f = bourse_book::verif::lookup(name).or_else(|| bourse_de::verif::lookup(name));
    let o: Outcome = match f {
        Some(f) => run_with(vals, f),
        None => not_found(),
    };
    let list = |v: &Vec<String>| v.iter().map(|s| format!("\"{}\"", esc(s))).collect::<Vec<_>>().join(",");
    let draws = o.draws.iter().map(|(t, v)| format!("[\"{}\",\"{}\"]", t, v)).collect::<Vec<_>>().join(",");
    println!(
        "{{\"harness\":\"{}\",\"found\":{},\"assume_failed\":{},\"panic\":{},\"failed_checks\":[{}],\"covers_hit\":[{}],\"exhausted\":{},\"profile\":\"{}\",\"draws\":[{}]}}",
        esc(name),
        o.found,
        o.assume_failed,
        match &o.panic_msg { Some(m) => format!("\"{}\"", esc(m)), None => "null".to_string() },
        list(&o.failed_checks),
        list(&o.covers_hit),
        o.exhausted,
        if cfg!(debug_assertions) { "dev" } else { "release" },
        draws
    );
}
