//! Concrete public-API demonstrations of the defects found by the checks (DESIGN.md §6): each
//! returns `Some(description)` when the defect is present in the tree it is built against.
//! They are demonstrations (one fixed input each) for the known-findings record, not checks.
use bourse_book::types::{Price, Side, Status};
use bourse_book::OrderBook;
use bourse_de::agents::common::{cancel_live_orders, place_sell_limit_order};
use bourse_de::agents::{Agent, MomentumAgent, MomentumParams};
use bourse_de::Env;
use rand::RngCore;
use rand_distr::Uniform;

/// a generator whose every word is 0 (so that `gen::<f32>()` is exactly 0.0)
struct ZeroRng;
impl RngCore for ZeroRng {
    fn next_u32(&mut self) -> u32 {
        0
    }
    fn next_u64(&mut self) -> u64 {
        0
    }
    fn fill_bytes(&mut self, dest: &mut [u8]) {
        for b in dest.iter_mut() {
            *b = 0;
        }
    }
    fn try_fill_bytes(&mut self, dest: &mut [u8]) -> Result<(), rand::Error> {
        self.fill_bytes(dest);
        Ok(())
    }
}
/// a generator whose words make `gen::<f64>()` tiny but positive
struct SmallRng(u64);
impl RngCore for SmallRng {
    fn next_u32(&mut self) -> u32 {
        self.next_u64() as u32
    }
    fn next_u64(&mut self) -> u64 {
        self.0 = self.0.wrapping_add(0x9E37_79B9_7F4A_7C15);
        (self.0 >> 40) << 11
    }
    fn fill_bytes(&mut self, dest: &mut [u8]) {
        for b in dest.iter_mut() {
            *b = self.next_u64() as u8;
        }
    }
    fn try_fill_bytes(&mut self, dest: &mut [u8]) -> Result<(), rand::Error> {
        self.fill_bytes(dest);
        Ok(())
    }
}

fn guarded<F: FnOnce() -> Option<String> + std::panic::UnwindSafe>(f: F) -> Option<String> {
    let prev = std::panic::take_hook();
    std::panic::set_hook(Box::new(|_| {}));
    let r = std::panic::catch_unwind(f);
    std::panic::set_hook(prev);
    match r {
        Ok(x) => x,
        Err(e) => Some(format!(
            "panicked: {}",
            e.downcast_ref::<String>().cloned().or_else(|| e.downcast_ref::<&str>().map(|s| s.to_string())).unwrap_or_default()
        )),
    }
}

pub fn run(role: &str) -> Option<Option<String>> {
    Some(match role {
        "C05.tied_key_overwrite" => guarded(|| {
            let mut book: OrderBook = OrderBook::new(0, 1, true);
            let a = book.create_and_place_order(Side::Bid, 10, 1, Some(100)).unwrap();
            let b = book.create_and_place_order(Side::Bid, 5, 2, Some(100)).unwrap();
            book.cancel_order(a);
            if book.bid_ask().0 != 100 || book.bid_vol() != 5 {
                return Some(format!("two bids queued at one price and time-stamp, first cancelled: bid touch {} with bid volume {} (order {} is still Active but unreachable)", book.bid_ask().0, book.bid_vol(), b));
            }
            let s = book.create_and_place_order(Side::Ask, 5, 3, None).unwrap();
            if book.order(b).status != Status::Filled || book.order(s).status != Status::Filled {
                return Some("the surviving tied order could not be executed".to_string());
            }
            None
        }),
        "C12.modify_offgrid_price" => guarded(|| {
            let mut book: OrderBook = OrderBook::new(0, 2, true);
            let a = book.create_and_place_order(Side::Bid, 10, 1, Some(100)).unwrap();
            book.modify_order(a, Some(101), None);
            let p = book.order(a).price;
            if p % 2 != 0 {
                return Some(format!("modify_order moved a resting order to price {} on a tick-2 book; bid levels now report {:?} for bid volume {}", p, book.bid_levels()[0], book.bid_vol()));
            }
            None
        }),
        "C02.mid_price_crossed" => guarded(|| {
            let mut book: OrderBook = OrderBook::new(0, 1, false);
            book.create_and_place_order(Side::Bid, 10, 1, Some(110)).unwrap();
            book.create_and_place_order(Side::Ask, 10, 2, Some(100)).unwrap();
            let m = book.mid_price();
            if m != 105.0 {
                return Some(format!("mid_price of a book crossed at (110, 100) is {}", m));
            }
            None
        }),
        "C16.clamp_offgrid" => guarded(|| {
            let mut env = Env::new(0, 2, 1000, true);
            let mut rng = ZeroRng;
            let far = Uniform::<f64>::new(1.0e12, 2.0e12);
            let r = place_sell_limit_order(&mut env, &mut rng, far, 2147483647.5, 2.0, 10, 7);
            match r {
                Ok(id) => {
                    let p: Price = env.order(id).price;
                    if p % 2 != 0 {
                        Some(format!("sell limit order quoted at off-grid price {}", p))
                    } else {
                        None
                    }
                }
                Err(e) => Some(format!("a sell quote far above the mid on a tick-2 book is rejected ({}); the agents unwrap() this", e)),
            }
        }),
        "C16.p_cancel_zero" => guarded(|| {
            let mut env = Env::new(0, 1, 1000, true);
            let mut rng = ZeroRng;
            let id = env.place_order(Side::Bid, 10, 1, Some(100)).unwrap();
            env.step(&mut rng);
            let kept = cancel_live_orders(&mut env, &mut rng, &[id], 0.0);
            if kept.len() != 1 {
                return Some("p_cancel = 0 cancelled a live order (generator draw exactly 0.0)".to_string());
            }
            None
        }),
        "C17.negative_probability" => guarded(|| {
            let mut env = Env::new(0, 1, 1000, true);
            let mut rng = SmallRng(1);
            let b = env.place_order(Side::Bid, 100, 0, Some(1000)).unwrap();
            let a = env.place_order(Side::Ask, 100, 0, Some(1020)).unwrap();
            env.step(&mut rng);
            let params = MomentumParams { tick_size: 1, p_cancel: 0.0, trade_vol: 10, decay: 1.0, demand: 1.0e6, scale: 1.0, order_ratio: 0.0, price_dist_mu: 0.0, price_dist_sigma: 1.0 };
            let mut agents = MomentumAgent::new(10, 3, params);
            agents.update(&mut env, &mut rng);
            // the market falls by 100
            env.cancel_order(b);
            env.cancel_order(a);
            env.step(&mut rng);
            env.place_order(Side::Bid, 100, 0, Some(900)).unwrap();
            env.place_order(Side::Ask, 100, 0, Some(920)).unwrap();
            env.step(&mut rng);
            let before = env.get_orders().len();
            agents.update(&mut env, &mut rng);
            let new: Vec<_> = env.get_orders().into_iter().skip(before).map(|o| matches!(o.side, Side::Ask)).collect();
            if new.len() != 3 || !new.iter().all(|s| *s) {
                return Some(format!("falling market at saturated demand: {} of 3 traders sold (documented: each sells with probability |demand tanh(scale M)| / n >= 1)", new.iter().filter(|s| **s).count()));
            }
            None
        }),
        _ => return None,
    })
}

pub const ROLES: [&str; 6] = ["C05.tied_key_overwrite", "C12.modify_offgrid_price", "C02.mid_price_crossed", "C16.clamp_offgrid", "C16.p_cancel_zero", "C17.negative_probability"];
