"""Which harnesses decide which property, at which tier (see DESIGN.md §4).

Every harness is a `#[kani::proof]` in /verif/harness/*.rs, compiled into /repo's crates through the
cfg(kani) hooks.  `role` marks the narrow harness that isolates a listed finding (DESIGN.md §3.8).
"""

BOOK = "bourse-book"
DE = "bourse-de"
PY = "bourse"

# safe Rust only in the code under analysis: bounds / overflow / unwrap failures are explicit panics
# and stay checked; CBMC's raw-pointer validity checks add nothing but formula size.
FAST = ("--no-memory-safety-checks", "--no-assertion-reach-checks")

BOOK_FUNCS = [
    "OrderBook::{create_order,create_and_place_order,place_order,place_bid_limit,place_ask_limit,place_bid_market,"
    "place_ask_market,match_bid,match_ask,cancel_order,modify_order,reduce_order_vol,replace_order,process_event}",
    "orderbook::match_orders", "OrderBook::try_from(OrderBookState)",
    "side::{OrderBookSide,BidSide,AskSide}::{insert_order,remove_order,remove_vol,best_price,best_vol,best_vol_and_orders,vol,"
    "best_order_idx,vol_and_orders_at_price}", "side::{get_bid_key,get_ask_key}",
    "OrderBook::{bid_ask,bid_vol,ask_vol,bid_best_vol,ask_best_vol,bid_best_vol_and_orders,ask_best_vol_and_orders,bid_levels,ask_levels}",
]
BOOK_ASSUME = [
    "pre-state: arbitrary order table satisfying the representation invariant I of DESIGN.md §3.3, built by the repository's own try_from",
    "std::collections::BTreeMap replaced under cfg(kani) by a capacity-4 sorted-array map with the same semantics (harness map_stub_matches_reference); native replay uses std BTreeMap",
    "valid histories as in the property text: volumes >= 1, limit prices on the grid in (0, 2^32-1), per-side resting volume and traded volume < 2^32",
    "rustc/Kani MIR->goto translation, CBMC 6.11 and CaDiCaL are trusted",
]


def book(name, what, tiers=("quick", "thorough"), bounds="", timeout=1500, **kw):
    d = {"name": name, "pkg": BOOK, "what": what, "tiers": tiers, "bounds": bounds, "timeout": timeout, "extra": FAST}
    # placement steps carry one vacuity witness per order kind; the one that applies is required
    if "_place_" in name and "limit" in name:
        d["covers"] = ["cover.two_fills_then_remainder_rests"]
    elif "_place_" in name and "market" in name:
        d["covers"] = ["cover.two_fills_then_market_remainder_cancelled"]
    elif "_place_disabled" in name or "_grid_place_off" in name:
        d["covers"] = ["cover.placed_while_disabled"]
    elif "place_existing_off" in name:
        d["covers"] = ["cover.existing_new_order_placed"]
    elif "second_placement_noop" in name:
        d["covers"] = ["cover.replace_active", "cover.replace_rejected"]
    elif "modify_volume_only" in name:
        d["covers"] = ["cover.pure_reduction", "cover.equal_volume_requeues", "cover.modify_non_active"]
    elif "modify_with_price" in name:
        d["covers"] = ["cover.modify_trades", "cover.repriced_partially_executes_then_rests", "cover.modify_non_active"]
    elif "modify" in name and ("_off" in name or "disabled" in name):
        d["covers"] = ["cover.pure_reduction", "cover.equal_volume_requeues", "cover.modify_non_active"]
    elif "uncrossed_modify" in name:
        d["covers"] = ["cover.pure_reduction", "cover.modify_trades", "cover.modify_non_active"]
    elif "modify" in name:
        d["covers"] = ["cover.pure_reduction", "cover.modify_trades", "cover.equal_volume_requeues", "cover.repriced_partially_executes_then_rests", "cover.modify_non_active"]
    d.update(kw)
    return d


PROPS = {}

PROPS["MAP"] = {
    "level": "model_checking",
    "harnesses": [
        {"name": "map_stub_matches_reference", "pkg": BOOK, "what": "stand-in map == naive reference on 3 symbolic ops", "bounds": "3 ops, keys 3x2", "timeout": 300},
    ],
}

M2 = "table of 2 arbitrary entries (+1 incoming), <=3 resting orders per side, 2 published levels, full-width u32/u64 values"


def P(pid, explanation, harnesses, bounds=M2, outside="more than 3 orders in the table at the time of the operation, more than 3(4) resting orders per side, LEVELS > 3 (the level loop body is identical per level)", extra_assume=(), functions=None, stubs=None):
    PROPS[pid] = {
        "level": "model_checking",
        "functions": functions or BOOK_FUNCS,
        "assumptions": BOOK_ASSUME + list(extra_assume),
        "bounds": bounds,
        "outside": outside,
        "explanation": explanation,
        "stubs": stubs or ["std BTreeMap -> verif_map (cfg(kani) only)"],
        "harnesses": harnesses,
    }


DISC = "clock discipline: no two active orders share (side, price, queue time), incl. the incoming / re-queued one (the complement is C05)"
KINDS = ["bid_limit", "ask_limit", "bid_market", "ask_market"]

P("C01",
  "One inductive step: for every order table satisfying the representation invariant and every incoming order, the real "
  "create_and_place_order / place_order / cancel_order / process_event produce exactly the records, trades, counter and side indexes of a "
  "reference price-time matching engine (best price, then earliest queue time, fill = min at the passive price, limit remainder rests "
  "with queue time now, market remainder cancelled). Induction over the step covers histories of any length ending in a state within the bounds.",
  [book(f"c01_place_{k}_m2", f"create_and_place_order({k}) on an arbitrary 2-entry table == reference engine; side indexes == rebuild") for k in KINDS]
  + [book("c01_cancel_m2", "cancel_order(any id, any status) == reference", timeout=600),
     book("c01_event_dispatch_m2", "process_event(New|Cancellation|Modify) == direct call (trading off)", timeout=600),
     book("c01_admin_m2", "set_time / toggles / reset_trade_vol change nothing else", timeout=600),
     book("c01_place_existing_off_m2", "place_order(existing New entry), trading off: prologue/dispatch/write-back == reference", timeout=600)],
  extra_assume=[DISC])

P("C02",
  "After every operation kind, every public market-data getter (bid_ask, *_vol, *_best_vol, *_best_vol_and_orders, *_levels, level_1_data, "
  "level_2_data) equals a recomputation from the book's own order list, the views agree with one another, and the incrementally maintained "
  "side indexes equal the ones rebuilt from the order list; with trading on and an uncrossed pre-state the post-state is uncrossed. Tick symbolic 1..10.",
  [book(f"c02_place_{k}_m2", f"views == recomputation after create_and_place_order({k}); tick 1..10") for k in KINDS]
  + [book("c02_cancel_m2", "views == recomputation after cancel_order", timeout=600),
     book("c02_modify_m2", "views == recomputation after modify_order (all shapes)"),
     book("c02_uncrossed_place_limit_m2", "trading & uncrossed pre-state => uncrossed after any placement"),
     book("c02_uncrossed_modify_m2", "trading & uncrossed pre-state => uncrossed after any modification"),
     book("c02_mid_price_m2", "mid_price == bid + (ask-bid)/2 exactly, never panics (uncrossed states)", timeout=600),
     book("c02_mid_price_crossed", "mid_price on a crossed book (reachable after trading was disabled)", role="C02.mid_price_crossed", expect_fail=True, timeout=600)],
  extra_assume=[DISC])

P("C03",
  "Per-step ledger audit, which telescopes over histories: old records bit-identical; each appended record has t = book time, the passive "
  "order's price and side, vol > 0, active id = the order the operation acted on, opposite sides, both limits admit the price; per-order "
  "volume lost = sum of appended records naming it; trade_vol delta = sum of appended volumes.",
  [book(f"c03_place_{k}_m2", f"ledger audit after create_and_place_order({k}); 1 arbitrary pre-existing record") for k in KINDS]
  + [book("c03_modify_m2", "ledger audit after modify_order (all shapes, incl. trading replacements)"),
     book("c03_cancel_m2", "ledger audit after cancel_order", timeout=600)],
  extra_assume=[DISC])

P("C04",
  "Transition relation on every table entry for every operation: status advances one way, terminal records frozen, id/side/trader/start_vol "
  "never change, arr_time set exactly at placement, end_time set exactly on reaching a terminal status; redundant requests (second placement, "
  "cancel/modify of a non-active order, set_time) leave a complete observable snapshot unchanged.",
  [book(f"c04_place_{k}_m2", f"lifecycle audit after create_and_place_order({k})") for k in KINDS]
  + [book("c04_cancel_m2", "lifecycle audit + no-op clause for cancel_order(any status)", timeout=600),
     book("c04_modify_m2", "lifecycle audit + no-op clause for modify_order(any status)"),
     book("c04_second_placement_noop_m2", "place_order on a non-New order leaves the full snapshot unchanged"),
     book("c04_admin_m2", "set_time / toggles / reset leave everything else unchanged", timeout=600)])

P("C06",
  "modify_order on every entry (any status) x all option shapes vs the reference: pure reduction changes only the volume and keeps the queue "
  "key; anything else = remove, rewrite, re-arrive at the current time (matching if trading) keeping id/side/trader/arrival/start volume; "
  "(None,None) and non-active targets are no-ops. The v == current volume boundary is inside the (None,Some v) harness.",
  [book("c06_modify_volume_only_m2", "modify_order(id, None, Some v), v <,=,> current, trading symbolic == reference"),
   book("c06_modify_with_price_m2", "modify_order(id, Some p, v?), any on-grid p, trading symbolic == reference"),
   book("c06_modify_any_off_m2", "modify_order any shape, trading off == reference", timeout=600)],
  extra_assume=[DISC])

P("C13",
  "With the flag clear no record is appended and the counter is unchanged; limit placements and replacements rest at their price (crossing "
  "allowed), market placements end Rejected with views unchanged; toggles change only the flag; with the flag set on a possibly crossed "
  "state the step equals the reference engine.",
  [book("c13_place_disabled_m2", "create_and_place_order (any side/kind), trading off == reference, no trade", timeout=600),
   book("c13_modify_disabled_m2", "modify_order (any shape), trading off == reference, no trade", timeout=600),
   book("c13_cancel_disabled_m2", "cancel_order, trading off", timeout=600),
   book("c13_admin_m2", "toggles change nothing but the flag", timeout=600),
   book("c13_place_bid_limit_enabled_m2", "after re-enabling: bid limit on a possibly crossed book == reference"),
   book("c13_place_ask_limit_enabled_m2", "after re-enabling: ask limit on a possibly crossed book == reference")],
  extra_assume=[DISC])

NOT_APPLICABLE = {
    "C09": "two-run hyperproperty over whole simulations, OS processes and the progress-bar branch (kdam terminal I/O, ziggurat sampler with "
           "unbounded loops, hundreds of steps): self-composition of deterministic code is vacuously equal inside a bounded symbolic executor and "
           "the nondeterminism sources it is meant to exclude (hash seeds, addresses, process state) are not modelled; reachable fragments are "
           "claimed under C08 (step is a function of state, batch and RNG words), C15 (shuffle depends only on the words) and C18 (seeding). DESIGN.md §5",
}
