"""Which harnesses decide which property, at which tier (see DESIGN.md §4).

Every harness is a `#[kani::proof]` in /verif/harness/*.rs, compiled into /repo's crates through the
cfg(kani) hooks.  `role` marks the narrow harness that isolates a listed finding (DESIGN.md §3.8).
"""

BOOK = "bourse-book"
DE = "bourse-de"
PY = "bourse"

# safe Rust only in the code under analysis: bounds / overflow / unwrap failures are explicit panics
# and stay checked; CBMC's raw-pointer validity checks add nothing but formula size.
FAST = ("--no-memory-safety-checks", "--no-assertion-reach-checks")
# the token tape of the serde round-trip harnesses is a 160-element array: CBMC keeps arrays field-sensitive
# (element-wise constant propagation) only up to 64 elements by default
TAPE_ARGS = ("--cbmc-args", "--max-field-sensitivity-array-size", "200")

BOOK_FUNCS = [
    "OrderBook::{create_order,create_and_place_order,place_order,place_bid_limit,place_ask_limit,place_bid_market,"
    "place_ask_market,match_bid,match_ask,cancel_order,modify_order,reduce_order_vol,replace_order,process_event}",
    "orderbook::match_orders", "OrderBook::try_from(OrderBookState)",
    "side::{OrderBookSide,BidSide,AskSide}::{insert_order,remove_order,remove_vol,best_price,best_vol,best_vol_and_orders,vol,"
    "best_order_idx,vol_and_orders_at_price}", "side::{get_bid_key,get_ask_key}",
    "OrderBook::{bid_ask,bid_vol,ask_vol,bid_best_vol,ask_best_vol,bid_best_vol_and_orders,ask_best_vol_and_orders,bid_levels,ask_levels}",
]
BOOK_ASSUME = [
    "pre-state: arbitrary order table satisfying the representation invariant I of DESIGN.md §3.3, built by the repository's own try_from",
    "std::collections::BTreeMap replaced under cfg(kani) by a capacity-4 sorted-array map with the same semantics (harness map_stub_matches_reference); native replay uses std BTreeMap",
    "valid histories as in the property text: volumes >= 1, limit prices on the grid in (0, 2^32-1), per-side resting volume and traded volume < 2^32",
    "rustc/Kani MIR->goto translation, CBMC 6.11 and CaDiCaL are trusted",
]


def book(name, what, tiers=("quick", "thorough"), bounds="", timeout=1500, **kw):
    d = {"name": name, "pkg": BOOK, "what": what, "tiers": tiers, "bounds": bounds, "timeout": timeout, "extra": FAST}
    # placement steps carry one vacuity witness per order kind; the one that applies is required
    if "_place_" in name and "limit" in name:
        d["covers"] = ["cover.two_fills_then_remainder_rests"]
    elif "_place_" in name and "market" in name:
        d["covers"] = ["cover.two_fills_then_market_remainder_cancelled"]
    elif "_place_disabled" in name or "_grid_place_off" in name:
        d["covers"] = ["cover.placed_while_disabled"]
    elif "place_existing_off" in name:
        d["covers"] = ["cover.existing_new_order_placed"]
    elif "second_placement_noop" in name:
        d["covers"] = ["cover.replace_active", "cover.replace_rejected"]
    elif "modify_volume_only" in name:
        d["covers"] = ["cover.pure_reduction", "cover.equal_volume_requeues", "cover.modify_non_active"]
    elif "modify_with_price" in name:
        d["covers"] = ["cover.modify_trades", "cover.repriced_partially_executes_then_rests", "cover.modify_non_active"]
    elif "modify" in name and ("_off" in name or "disabled" in name):
        d["covers"] = ["cover.pure_reduction", "cover.equal_volume_requeues", "cover.modify_non_active"]
    elif "uncrossed_modify" in name:
        d["covers"] = ["cover.pure_reduction", "cover.modify_trades", "cover.modify_non_active"]
    elif "modify" in name:
        d["covers"] = ["cover.pure_reduction", "cover.modify_trades", "cover.equal_volume_requeues", "cover.repriced_partially_executes_then_rests", "cover.modify_non_active"]
    d.update(kw)
    return d


PROPS = {}

PROPS["MAP"] = {
    "level": "model_checking",
    "harnesses": [
        {"name": "map_stub_matches_reference", "pkg": BOOK, "what": "stand-in map == naive reference on 3 symbolic ops", "bounds": "3 ops, keys 3x2", "timeout": 300},
    ],
}

M2 = "table of 2 arbitrary entries (+1 incoming), <=3 resting orders per side, 2 published levels, full-width u32/u64 values"


def P(pid, explanation, harnesses, bounds=M2, outside="more than 3 orders in the table at the time of the operation, more than 3(4) resting orders per side, LEVELS > 3 (the level loop body is identical per level)", extra_assume=(), functions=None, stubs=None):
    PROPS[pid] = {
        "level": "model_checking",
        "functions": functions or BOOK_FUNCS,
        "assumptions": BOOK_ASSUME + list(extra_assume),
        "bounds": bounds,
        "outside": outside,
        "explanation": explanation,
        "stubs": stubs or ["std BTreeMap -> verif_map (cfg(kani) only)"],
        "harnesses": harnesses,
    }


DISC = "representation invariant on queue times: resting orders carry pairwise distinct ones, all below the book's next queue time (the book hands them out strictly increasing since the C05 repair; ties in time-stamps are ordinary histories)"
KINDS = ["bid_limit", "ask_limit", "bid_market", "ask_market"]

P("C01",
  "One inductive step: for every order table satisfying the representation invariant and every incoming order, the real "
  "create_and_place_order / place_order / cancel_order / process_event produce exactly the records, trades, counter and side indexes of a "
  "reference price-time matching engine (best price, then earliest queue time, fill = min at the passive price, limit remainder rests "
  "with queue time now, market remainder cancelled). Induction over the step covers histories of any length ending in a state within the bounds.",
  [book(f"c01_place_{k}_m2", f"create_and_place_order({k}) on an arbitrary 2-entry table == reference engine; side indexes == rebuild") for k in KINDS]
  + [book("c01_cancel_m2", "cancel_order(any id, any status) == reference", timeout=600),
     book("c01_event_dispatch_m2", "process_event(New|Cancellation|Modify) == direct call (trading off)", timeout=600),
     book("c01_admin_m2", "set_time / toggles / reset_trade_vol change nothing else", timeout=600),
     book("c01_place_existing_off_m2", "place_order(existing New entry), trading off: prologue/dispatch/write-back == reference", timeout=600),
     book("c06_modify_with_price_m2", "a RE-PRICED order == reference engine (leaves the book, re-arrives now, matches, rests behind everyone at its price)")]
  + [book(f"c01_place_{k}_m3", f"create_and_place_order({k}) on an arbitrary 3-entry table (<= 3 resting per side) == reference engine", tiers=("thorough",), timeout=3000,
          covers=["cover.two_fills_then_remainder_rests"] if "limit" in k else ["cover.two_fills_then_market_remainder_cancelled"]) for k in KINDS]
  + [book("c01_cancel_m3", "cancel on a 3-entry table == reference; views == recomputation", tiers=("thorough",), timeout=1500, covers=["cover.cancel_active", "cover.cancel_filled", "cover.cancel_one_of_two_at_level"]),
     book("c06_modify_with_price_m3", "re-pricing modification on a 3-entry table == reference (not scheduled: no verdict in 60 min on this box)", tiers=(), timeout=3000)],
  extra_assume=[DISC])

P("C02",
  "After every operation kind, every public market-data getter (bid_ask, *_vol, *_best_vol, *_best_vol_and_orders, *_levels, level_1_data, "
  "level_2_data) equals a recomputation from the book's own order list, the views agree with one another, and the incrementally maintained "
  "side indexes equal the ones rebuilt from the order list; with trading on and an uncrossed pre-state the post-state is uncrossed. Tick symbolic 1..10.",
  [book(f"c02_place_{k}_m2", f"views == recomputation after create_and_place_order({k}); tick 1..10") for k in KINDS]
  + [book("c02_cancel_m2", "views == recomputation after cancel_order", timeout=600),
     book("c02_modify_volume_only_m2", "views == recomputation after modify_order(id, None, Some v)", covers=["cover.pure_reduction", "cover.modify_non_active"]),
     book("c02_modify_with_price_m2", "views == recomputation after modify_order(id, Some p, v?)", covers=["cover.modify_trades", "cover.modify_non_active"]),
     book("c02_modify_m2", "views == recomputation after modify_order (all shapes in one formula)", tiers=("thorough",), timeout=3000),
     book("c02_uncrossed_place_limit_m2", "trading & uncrossed pre-state => uncrossed after any placement"),
     book("c02_uncrossed_modify_m2", "trading & uncrossed pre-state => uncrossed after any modification"),
     book("c02_mid_price_m2", "mid_price == bid + (ask-bid)/2 exactly, never panics (uncrossed states)", timeout=600),
     book("c02_mid_price_crossed", "mid_price on a crossed book (reachable after trading was disabled)", role="C02.mid_price_crossed", timeout=600, covers=["cover.two_sided_book"]),
     book("c02_place_bid_limit_l3_m2", "views == recomputation with 3 published levels", tiers=("thorough",), timeout=1500, covers=["cover.two_fills_then_remainder_rests"]),
     book("c01_cancel_m3", "views == recomputation after a cancel on a 3-entry table", tiers=("thorough",), timeout=1500, covers=["cover.cancel_active", "cover.cancel_filled", "cover.cancel_one_of_two_at_level"])],
  extra_assume=[DISC])

P("C03",
  "Per-step ledger audit, which telescopes over histories: old records bit-identical; each appended record has t = book time, the passive "
  "order's price and side, vol > 0, active id = the order the operation acted on, opposite sides, both limits admit the price; per-order "
  "volume lost = sum of appended records naming it; trade_vol delta = sum of appended volumes.",
  [book(f"c03_place_{k}_m2", f"ledger audit after create_and_place_order({k}); 1 arbitrary pre-existing record") for k in KINDS]
  + [book("c03_modify_m2", "ledger audit after modify_order (all shapes, incl. trading replacements)"),
     book("c03_cancel_m2", "ledger audit after cancel_order", timeout=600)],
  extra_assume=[DISC])

P("C04",
  "Transition relation on every table entry for every operation: status advances one way, terminal records frozen, id/side/trader/start_vol "
  "never change, arr_time set exactly at placement, end_time set exactly on reaching a terminal status; redundant requests (second placement, "
  "cancel/modify of a non-active order, set_time) leave a complete observable snapshot unchanged.",
  [book(f"c04_place_{k}_m2", f"lifecycle audit after create_and_place_order({k})") for k in KINDS]
  + [book("c04_cancel_m2", "lifecycle audit + no-op clause for cancel_order(any status)", timeout=600),
     book("c04_modify_m2", "lifecycle audit + no-op clause for modify_order(any status)"),
     book("c04_second_placement_noop_m2", "place_order on a non-New order leaves the full snapshot unchanged"),
     book("c04_admin_m2", "set_time / toggles / reset leave everything else unchanged", timeout=600)])

P("C06",
  "modify_order on every entry (any status) x all option shapes vs the reference: pure reduction changes only the volume and keeps the queue "
  "key; anything else = remove, rewrite, re-arrive at the current time (matching if trading) keeping id/side/trader/arrival/start volume; "
  "(None,None) and non-active targets are no-ops. The v == current volume boundary is inside the (None,Some v) harness.",
  [book("c06_modify_volume_only_m2", "modify_order(id, None, Some v), v <,=,> current, trading symbolic == reference"),
   book("c06_modify_with_price_m2", "modify_order(id, Some p, v?), any on-grid p, trading symbolic == reference"),
   book("c06_modify_any_off_m2", "modify_order any shape, trading off == reference", timeout=600),
   book("c06_modify_with_price_m3", "re-pricing modification on a 3-entry table == reference (not scheduled: no verdict in 60 min on this box)", tiers=(), timeout=3000)],
  extra_assume=[DISC])

P("C13",
  "With the flag clear no record is appended and the counter is unchanged; limit placements and replacements rest at their price (crossing "
  "allowed), market placements end Rejected with views unchanged; toggles change only the flag; with the flag set on a possibly crossed "
  "state the step equals the reference engine.",
  [book("c13_place_disabled_m2", "create_and_place_order (any side/kind), trading off == reference, no trade", timeout=600),
   book("c13_modify_disabled_m2", "modify_order (any shape), trading off == reference, no trade", timeout=600),
   book("c13_cancel_disabled_m2", "cancel_order, trading off", timeout=600),
   book("c13_admin_m2", "toggles change nothing but the flag", timeout=600),
   book("c13_place_bid_limit_enabled_m2", "after re-enabling: bid limit on a possibly crossed book == reference"),
   book("c13_place_ask_limit_enabled_m2", "after re-enabling: ask limit on a possibly crossed book == reference"),
   book("c14_market_admin", "Market-level toggles reach every asset and change nothing else", covers=["cover.reset_reaches_asset_1"], timeout=900)],
  extra_assume=[DISC])


P("C12",
  "create_order with an ARBITRARY price on an arbitrary table, for each tick 1..10: Ok <=> the price is a multiple of the tick (market orders always); a rejected "
  "creation reports (price, tick), consumes no id and leaves every existing record, every view and both side indexes unchanged; the grid invariant (every "
  "limit order's price is a multiple of the tick) is re-established by placements and by modifications, with modify prices UNCONSTRAINED in the isolating harness.",
  [book(f"c12_create_tick{t}_m2", f"create_order(any side, any volume, any u32 price | market), tick {t}", covers=["cover.limit_order_created"] + (["cover.creation_rejected"] if t > 1 else []), timeout=600,
        tiers=("quick", "thorough")) for t in range(1, 11)]
  + [book("c12_grid_place_tick3_off_m2", "placement (any kind) on a tick-3 book keeps every price on the grid; views == recomputation", covers=["cover.placed_while_disabled"]),
     book("c12_grid_modify_price_tick3_off_m2", "modify to any ON-grid price on a tick-3 book (trading off) keeps the grid; views == recomputation", covers=["cover.modify_non_active"]),
     book("c12_grid_modify_ongrid_tick3_m2", "same with the trading flag symbolic and every option shape", covers=["cover.modify_trades", "cover.modify_non_active"], tiers=("thorough",), timeout=3000),
     book("c12_modify_any_price_tick3_m2", "modify_order with ANY new price on a tick-3 book keeps every resting price on the grid", role="C12.modify_offgrid_price", covers=["cover.modify_non_active"], timeout=600),
     book("c12_modify_any_price_tick2_m2", "same on a tick-2 book (2 does not divide 2^32-1: MAX - price, the bid-side queue key, is off the grid)", role="C12.modify_offgrid_price", covers=["cover.modify_non_active"], timeout=600),
     book("c12_modify_any_price_tick10_m2", "same on a tick-10 book", role="C12.modify_offgrid_price", covers=["cover.modify_non_active"], timeout=600),
     book("c12_modify_any_price_tick8_m2", "same on a tick-8 book (power of two)", role="C12.modify_offgrid_price", covers=["cover.modify_non_active"], timeout=600),
     book("c12_modify_any_price_tick7_on_m2", "ANY new price, every option shape, trading flag symbolic, tick 7", role="C12.modify_offgrid_price", covers=["cover.modify_non_active", "cover.modify_trades"], timeout=3000, tiers=("thorough",))],
  bounds="table of 2 arbitrary entries (+1 created), ticks 1..10 each enumerated in both tiers, full-width prices incl. 0 and 2^32-1",
  outside="ticks > 10; tables > 2 entries; environment-level creation is decided by C10's submission harnesses (same Ok <=> on-grid / no-trace assertions through Env::place_order)")

P("C05",
  "Placements that tie with a resting order (same side, same price, clock not advanced): afterwards every active order is still queued in its side index under its "
  "own key, the index holds nothing else, and every view equals the recomputation from the order list.",
  [book("c05_place_bid_limit_tie_m2", "bid limit arriving at the same price and timestamp as a resting bid", role="C05.tied_key_overwrite", covers=["cover.two_fills_then_remainder_rests"], covers_unsat_ok=["cover.two_fills_then_remainder_rests"]),
   book("c05_place_ask_limit_tie_m2", "ask limit arriving at the same price and timestamp as a resting ask", role="C05.tied_key_overwrite", covers=["cover.two_fills_then_remainder_rests"], covers_unsat_ok=["cover.two_fills_then_remainder_rests"]),
   book("c06_modify_with_price_m2", "re-queuing modification on a table whose queue times are arbitrary (ties with the clock included) == reference; queued behind every order at its price"),
   book("c01_admin_m2", "set_time / toggles / reset keep the next queue time after every resting key", timeout=600)],
  outside="tables > 2 entries; over-full environment steps are covered through the step-loop harnesses of C08 (the loop stamps start+i whatever the step size) plus the tie harnesses here")

P("C07",
  "Loading a snapshot = the derived field-by-field decode followed by TryFrom<OrderBookState>: for an ARBITRARY valid order table (unplaced, active, partially filled, "
  "cancelled, rejected orders, trading on or off) the loaded book carries every scalar, every order record with its stored queue key and every trade unchanged, both "
  "side indexes hold exactly the active orders under those keys (rebuilt == incrementally maintained is re-asserted after every operation kind by C01-C06's "
  "harnesses, whose pre-states are all built through this very code path, i.e. every one of them is a lock-step continuation of a LOADED book against the reference engine), "
  "every view equals the recomputation, and the next queue time lies after every resting key. The derived Serialize / Deserialize implementations themselves (field names, skip_serializing, "
  "try_from, serde_as) are run end to end against a token-tape data format (no text): saving then loading a book / a two-asset market gives back equal scalars, records, keys, trades and side indexes.",
  [book("c07_reload_m2", "try_from on an arbitrary 2-entry table + 1 arbitrary trade record", covers=["cover.two_sided_book", "cover.unplaced_and_active_orders_present"], timeout=600),
   book("c07_reload_m3", "try_from on an arbitrary 3-entry table", covers=["cover.two_sided_book", "cover.unplaced_and_active_orders_present"], timeout=1200, tiers=("thorough",)),
   book("c07_serde_roundtrip_m1", "save -> load of an arbitrary 1-order / 1-trade book through the DERIVED Serialize / Deserialize implementations (field names, skip attributes, try_from = OrderBookState) over a token tape: every scalar, record, key, trade and both side indexes of the loaded book equal the saved one's",
        covers=["cover.resting_order_saved_while_trading_disabled", "cover.unplaced_order_saved", "cover.rejected_order_saved"], timeout=900, extra=FAST + TAPE_ARGS),
   book("c07_serde_market_roundtrip_m1", "save -> load of a Market<2> (one arbitrary order per asset, ticks 1 and 3) through the derived implementations incl. the serde_as array adapter: each asset's book comes back in its own slot, equal to the saved one",
        covers=["cover.assets_differ"], timeout=1500, extra=FAST + TAPE_ARGS),
   book("c01_place_bid_limit_m2", "continuation of a loaded book: placement == reference engine; side indexes == rebuild"),
   book("c06_modify_with_price_m2", "continuation of a loaded book: re-pricing modification == reference engine; side indexes == rebuild"),
   book("c01_cancel_m2", "continuation of a loaded book: cancel == reference; side indexes == rebuild", timeout=600)],
  bounds="tables of 2 (3 thorough) arbitrary entries, 1 arbitrary trade record, 2 published levels",
  outside="the JSON TEXT layer (serde_json's writer and parser over byte strings), files, pretty vs compact, truncated files; derived round trips of books with 2+ orders (rustc encodes Option<OrderEntry> in the niche of the entry's Status byte, which makes 'has the Vec visitor stopped?' path-dependent for the symbolic executor; the per-entry code is the same for every entry)")

# ----------------------------------------------------------------------------------------------
# step_sim crate (bourse-de)
# ----------------------------------------------------------------------------------------------

DE_ASSUME = [
    "generator = SymRng: every word arbitrary; the n-1 words a shuffle of n items consumes are assumed accepted at first draw by rand 0.8.5 UniformInt::sample_single_inclusive (a rejected word only re-enters the same loop with a fresh word: lemma c15_index_draw_lemma)",
    "std::collections::BTreeMap replaced under cfg(kani) by a capacity-3 sorted-array map with the same semantics; native replay uses std BTreeMap",
    "valid histories as in the property text; batch size <= step size; injected volume per step < 2^32",
    "rustc/Kani MIR->goto translation, CBMC 6.11 and CaDiCaL are trusted",
]
STEP_FUNCS = ["Env::<L>::step", "rand::seq::SliceRandom::shuffle / gen_index / UniformInt::<u32>::sample_single_inclusive (rand 0.8.5, as compiled)",
              "Level2DataRecords::append_record", "OrderBook::{set_time,reset_trade_vol,get_trade_vol,level_2_data,bid_levels,ask_levels}", "OrderBook::process_event (real in *_b0/_b1/_b2 harnesses, logging stand-in in *_loop_* harnesses)"]
STUB_LOOP = "OrderBook::process_event -> OrderBook::verif_log_event in the *_loop_* harnesses only (#[kani::stub]): records (book time, kind, id, arguments) and adds 1 to the traded-volume counter; process_event itself is decided by C01/C06/C13's harnesses"


def de(name, what, tiers=("quick", "thorough"), bounds="", timeout=1200, covers=None, **kw):
    # harnesses running under a #[kani::stub] cannot be rebuilt natively: the solver verdict stands, flagged in evidence
    d = {"name": name, "pkg": DE, "what": what, "tiers": tiers, "bounds": bounds, "timeout": timeout, "extra": FAST,
         "replayable": "_loop_" not in name and not name.startswith("c17_") and "_update_" not in name}
    if covers is not None:
        d["covers"] = covers
    d.update(kw)
    return d


LOOP_COV = ["cover.first_and_last_swapped", "cover.place_and_cancel_of_the_same_order_in_one_batch"]
STEP_HARNESSES = [
    de("env_step_loop_b2", "Env::step, batch of 2 arbitrary instructions, all generator words: every instruction handed to process_event exactly once, in the permutation the words induce, at start+i; clock, counter, queue, records, cache", covers=LOOP_COV),
    de("env_step_loop_b3", "same, batch of 3", covers=LOOP_COV),
    de("env_step_loop_b4", "same, batch of 4", covers=LOOP_COV, tiers=("thorough",)),
    de("env_step_b0_m2", "idle step on an arbitrary book with a non-zero traded-volume counter: counter reset, clock, one faithful record, nothing else", covers=["cover.idle_step_after_trading_step"]),
    de("env_step_b1_any_off", "one arbitrary instruction with the REAL process_event, trading off: result == reference engine replay at start+0; records and cache == live book", covers=[]),
    de("env_step_b1_any", "same with the trading flag symbolic (matching included)", covers=[], tiers=("thorough",), timeout=3000),
    de("env_step_b1_modify_on", "one arbitrary Modify instruction with the REAL process_event, trading ON (re-pricing that executes included)", covers=[], tiers=("thorough",), timeout=3000),
    de("env_step_b1_new_on", "one arbitrary New instruction with the REAL process_event, trading ON", covers=[], tiers=("thorough",), timeout=3000),
    # (not scheduled in any tier: did not finish in 60 min on this box; kept for bigger machines)
    de("env_step_b2_any_off", "two arbitrary instructions with the REAL process_event, trading off, all schedules == plain replay in the induced order", covers=["cover.last_submitted_processed_first"], tiers=(), timeout=3000),
]

PROPS["C08"] = {
    "level": "model_checking", "functions": STEP_FUNCS + BOOK_FUNCS[:2], "assumptions": DE_ASSUME,
    "bounds": "batch 0..3 (4 thorough) instructions over a 2-entry order table, 2 published levels, 1 prior record, full-width values, ALL generator words",
    "outside": "batches > 4, tables > 2 entries, LEVELS > 2; the composition 'step loop + process_event == plain replay' is decided end-to-end only for batches of 0 and 1 (2 real instructions, even with trading off: no verdict in 60 min) and otherwise follows from the loop harnesses plus C01/C06/C13 by function-call semantics (stated, not solved); MarketEnv::step: see C14",
    "explanation": "Env::step decomposed: (a) the step LOOP with process_event replaced by a logging stand-in, fully symbolic batches and generator words: queue emptied, every queued instruction processed exactly once in the permutation the words induce on [0..n), the i-th at book time start+i, arguments intact, nothing else applied, clock = start+step_size, counter reset at the start and recorded at the end, exactly n-1 words drawn; (b) end-to-end with the real process_event for batches of 0 and 1: final book == the reference engine replaying the instruction at start+0.",
    "stubs": [STUB_LOOP, "std BTreeMap -> verif_map (cfg(kani) only)"],
    "harnesses": STEP_HARNESSES,
}

SUBMIT = [de(f"env_submit_tick{t}_m2", f"one place / cancel / modify submission between steps, tick {t}: live book, cache, histories, waiting instructions untouched; order appears as New iff created; queue grows by exactly that instruction",
             covers=["cover.limit_order_created"] + (["cover.creation_rejected"] if t > 1 else []), tiers=("quick", "thorough") if t in (1, 3, 10) else ("thorough",), timeout=600) for t in range(1, 11)]

MSUBMIT = [de("market_env_submit_place_asset0", "MarketEnv<2>: one place_order on asset 0 between steps: both live books, caches, histories, waiting instruction untouched; New order on the addressed asset only; ids (asset, n)", covers=["cover.order_created_on_the_addressed_asset"], timeout=600, tiers=("thorough",)),
           de("market_env_submit_place_asset1", "same, asset 1", covers=["cover.order_created_on_the_addressed_asset"], timeout=600),
           de("market_env_submit_cancel", "MarketEnv<2>: cancel_order on a symbolic asset / id queues exactly that instruction, also when the same one is already waiting", covers=["cover.duplicate_cancel_of_the_same_order"], timeout=600),
           de("market_env_submit_modify", "MarketEnv<2>: modify_order queues exactly that instruction", covers=[], timeout=600)]
MLOOP = de("market_env_step_loop_b2", "MarketEnv<2>::step loop, 2 instructions on symbolic assets, arbitrary stale caches", covers=["cover.cross_asset_batch_reordered"], timeout=1500)

PROPS["C10"] = {
    "level": "model_checking", "functions": ["Env::<L>::{place_order,cancel_order,modify_order,level_2_data,step}", "OrderBook::create_order"] + STEP_FUNCS[2:],
    "assumptions": DE_ASSUME, "bounds": "2-entry order table + 1 waiting instruction + 1 prior record, ticks {1,3,10} (1..10 thorough) enumerated, arbitrary arguments incl. off-grid prices and unknown ids",
    "outside": "tables > 2 entries (1 per asset in the multi-asset harnesses), LEVELS > 2, more than 2 assets",
    "explanation": "Submission step on an arbitrary environment: a complete observable snapshot (existing orders, trades, every view, clock, flag, counter, cached level-2 data, every recorded series, waiting instructions) is unchanged; exactly one order is appended with status New and the submitted fields iff creation succeeded; the queue grows by exactly the submitted instruction. After a step (idle, one real instruction, 2-3 logged instructions) the cached level-2 snapshot equals the live book's level_2_data() field by field.",
    "stubs": [STUB_LOOP, "std BTreeMap -> verif_map (cfg(kani) only)"],
    "harnesses": SUBMIT + MSUBMIT + [STEP_HARNESSES[3], STEP_HARNESSES[4], STEP_HARNESSES[5], STEP_HARNESSES[0], MLOOP],
}

# (the multi-asset loop harness is the slowest one there is - 7-11 min depending on the box - and is quick-tier only where seeds showed it
# to be the deciding harness: C10, C11, C14, C15)
PROPS["C08"]["harnesses"] = PROPS["C08"]["harnesses"] + [dict(MLOOP, tiers=("thorough",)), MSUBMIT[2]]
# (the multi-asset step loop is decided with Market::process_event replaced by a logging stand-in; what the real one does with each
# instruction kind - route it unchanged to the addressed book - is appended below from C14's harnesses once those are defined)
# (c14_market_event_modify_*: the formula needs 20-30 GB - rustc encodes Event's discriminant in the tag of one of its Option fields, a symbolic
# Option there makes the symbolic executor explore every arm of process_event - and aborts on this box; not scheduled)
C08_ROUTING = ("c14_market_event_new_asset0_off", "c14_market_event_cancel_asset1_off", "c14_market_modify_asset0_off", "c14_market_modify_routing_small")
PROPS["C08"]["stubs"] = PROPS["C08"]["stubs"] + ["Market::process_event -> Market::verif_log_event in market_env_step_loop_* (fixed-size log)"]

PROPS["C13"]["harnesses"] = PROPS["C13"]["harnesses"] + [de("env_toggle_m2", "Env::enable_trading / disable_trading set the wrapped book's flag and change nothing else", covers=["cover.re_enabled"], timeout=600),
                                                         de("market_env_toggle_m1", "MarketEnv::enable_trading / disable_trading set every asset's flag and change nothing else", covers=["cover.re_enabled"], timeout=600)]

PROPS["C11"] = {
    "level": "model_checking", "functions": ["Env::<L>::step", "Level2DataRecords::{new,append_record}", "Env::{get_prices,get_volumes,get_trade_vols,get_level_2_data_history}"] + STEP_FUNCS[3:],
    "assumptions": DE_ASSUME + ["inductive hypothesis: all series have equal length k (k = 1 arbitrary prior record)"],
    "bounds": "k = 1 prior record, 2 published levels, batches 0, 1 (real) and 2-3 (logged), arbitrary asymmetric 2-entry books",
    "outside": "LEVELS > 2, MarketEnv records (C14), more than one step in a row (induction over k is the stated argument)",
    "explanation": "One step from an environment with k arbitrary prior records: every series (touch prices, side volumes, per-level volumes and order counts for each level, per-step traded volume) has k+1 entries, the earlier entries are unchanged, the last entry equals the value read from the live book's own getters after the step (bid series from bid getters, ask from ask, on asymmetric books), and the per-step traded volume equals the sum of the trades stamped within the step: the step resets the book's counter before the first instruction and records it after the last (loop harnesses), every instruction of the batch is stamped inside the step (loop harnesses), and the book's counter grows by exactly the volume of the records each operation appends (C03's ledger audit, re-used here for placements and modifications).",
    "stubs": [STUB_LOOP, "std BTreeMap -> verif_map (cfg(kani) only)"],
    "harnesses": [STEP_HARNESSES[3], STEP_HARNESSES[4], STEP_HARNESSES[5], STEP_HARNESSES[6], STEP_HARNESSES[7], STEP_HARNESSES[0], dict(STEP_HARNESSES[1], tiers=("thorough",)), MLOOP,
                  book("c03_modify_m2", "the counter a step records is exact: traded-volume counter delta == sum of the records appended, for modifications (re-pricing that executes included)"),
                  book("c03_place_bid_limit_m2", "same for placements (bid limit)", tiers=("thorough",)),
                  book("c03_place_ask_market_m2", "same for placements (ask market)", tiers=("thorough",))],
}

PROPS["C15"] = {
    "level": "other", "functions": ["rand::seq::SliceRandom::shuffle", "rand::seq::gen_index", "rand::Rng::gen_range", "UniformInt::<u32>::sample_single_inclusive", "u32::leading_zeros", "Env::<L>::step"],
    "assumptions": DE_ASSUME + ["the generator's words are uniform and independent (the quality of Xoroshiro128** is not this repository's code)"],
    "bounds": "bijection lemma n <= 8 (12 thorough; all n! permutations shown reachable one by one for n <= 4, by counting above); index-draw lemma ranges 1..64 with at most one rejection; zone lemma all r < 2^32; step loop batches 2..3 (4 thorough)",
    "outside": "the statistical statement itself; bijection for n > 12; the counting step 'an interval of length r*2^k contains exactly 2^k multiples of r' and the product over draws are stated arithmetic, not solver results",
    "explanation": "Exact sufficient conditions instead of a statistical test: L1/L5 (step loop harnesses) the processing order of a step is the permutation the generator words induce on [0..n), for arbitrary instruction contents, and the step draws exactly n-1 words; L2 the compiled index draw returns hi(word*r) for the first word with lo(word*r) <= Z(r) and consumes exactly the words up to it; L3 Z(r)+1 = r*2^clz(r) exactly for every r (hence every index value owns exactly 2^clz(r) accepted words: each draw exactly uniform); L4 for n <= 8 (12) the map index-tuple -> permutation of the compiled shuffle is injective (and for n <= 4 all n! permutations are shown reachable; above, onto follows by counting n! tuples), so uniform tuples give uniform permutations; same words => same permutation.",
    "level_text": None,
    "stubs": [STUB_LOOP],
    "harnesses": [de("c15_index_draw_lemma", "L2: gen_range(0..r), r in 1..=64, all words with <= 1 rejection", covers=["cover.first_word_rejected", "cover.last_index_of_six"], timeout=300),
                  de("c15_zone_lemma", "L3: zone + 1 == r << clz(r) without loss, all r", covers=["cover.small_range"], timeout=300),
                  de("c15_bijection_3", "L4: n = 3, injective + all 6 permutations reachable", timeout=300),
                  de("c15_bijection_4", "L4: n = 4, injective + all 24 permutations reachable", timeout=300),
                  de("c15_bijection_5", "L4: n = 5, injective on the 120 index tuples (onto by counting)", covers=["cover.reversed", "cover.identity"], timeout=300),
                  de("c15_bijection_6", "L4: n = 6, injective on the 720 index tuples", covers=["cover.reversed", "cover.identity"], timeout=300),
                  de("c15_bijection_8", "L4: n = 8, injective on the 8! index tuples", covers=["cover.ends_swapped"], timeout=600),
                  de("c15_bijection_12", "L4: n = 12, injective on the 12! index tuples", covers=["cover.ends_swapped"], timeout=1500, tiers=("thorough",)),
                  STEP_HARNESSES[0], STEP_HARNESSES[1], STEP_HARNESSES[2], MLOOP],
}


def kernel_tiers(kind, t):
    quick = {"sell_limit_kernel": (2, 3, 7, 10), "buy_limit_kernel": (1, 4, 10), "sell_limit_kernel_market": (4,), "buy_limit_kernel_market": (6,)}[kind]
    return ("quick", "thorough") if t in quick else ("thorough",)


K1 = [de(f"c16_{kind}_tick{t}", f"{kind} at tick {t}: for every finite distribution draw >= 0 and every mid-price an uncrossed book can report, the kernel returns Ok, the order is on the right side, "
         f"on the tick grid, at or beyond the mid, with the configured volume and trader", covers=[], tiers=kernel_tiers(kind, t), timeout=900)
      for kind in ("sell_limit_kernel", "buy_limit_kernel", "sell_limit_kernel_market", "buy_limit_kernel_market") for t in range(1, 11)]
K2 = [de("c16_cancel_kernel_p_zero", "cancel_live_orders, p_cancel = 0: nothing is cancelled, for ALL generator words", covers=["cover.two_live_orders"], timeout=900),
      de("c16_cancel_kernel_p_one", "cancel_live_orders, p_cancel >= 1: every live tracked order is cancelled, nothing else", covers=["cover.two_live_orders"], timeout=900),
      de("c16_cancel_kernel_p_interior", "cancel_live_orders, 0 < p_cancel < 1: cancels exactly the live tracked orders whose draw is <= p, keeps the others, one word per live order", covers=["cover.two_live_orders"], timeout=900)]

AG_COMMON_STUBS = ["Env::place_order / Env::cancel_order -> same tick-grid test, submission / cancellation recorded in a fixed-size log (a Vec whose length depends on the path taken is out of CBMC's reach); Env::place_order itself is decided by C10's submission harnesses",
                   "in the noise-agent harnesses: place_{buy,sell}_limit_order -> a limit order of the given side / volume / trader at an arbitrary on-grid price, cancel_live_orders -> keeps nothing (both decided by K1 / K2)"]
K3 = [de("c16_random_update_always_tick3", "RandomAgents::update, one slot (empty or holding an order of any status), rate >= 1, tick 3, ranges (10,37) x (1,1000): acts exactly once - cancels its own Active order, else places one order with price = 3 x tick in range, volume in range, trader id = index", covers=["cover.cancels", "cover.places_a_bid"], timeout=900),
      de("c16_random_update_never_tick1", "same, rate 0: does nothing, draws one word", covers=[], timeout=900),
      de("c16_random_update_interior_tick10", "same, 0 < rate < 1, tick 10, single-value ranges", covers=["cover.cancels", "cover.places_a_bid"], timeout=900)]
K4 = [de("c16_noise_update_n2_always", "NoiseAgent::update, 2 traders, p_limit >= 1 and p_market >= 1: exactly one limit and one market order per trader, configured volume, own trader ids, tracked list = new limit orders", covers=["cover.every_trader_placed_both"], timeout=600),
      de("c16_noise_update_n2_never", "same, both probabilities 0: nothing", covers=["cover.nobody_acted"], timeout=600),
      de("c16_noise_update_n2_limit_only", "same, p_limit >= 1, p_market = 0", covers=[], timeout=600),
      de("c16_noise_update_n2_interior", "same, both probabilities strictly inside (0,1): at most one of each per trader", covers=["cover.every_trader_placed_both", "cover.nobody_acted"], timeout=600),
      de("c17_momentum_ratio_zero_rising_n2", "MomentumAgent::update, order ratio 0 at saturated demand: never a limit order, always one market order per trader", covers=["cover.every_trader_acted"], timeout=600),
      de("c17_momentum_saturated_ratio_half_rising_n2", "MomentumAgent::update, order ratio 1/2 and demand/n >= 4: the limit-order probability ratio x demand/n >= 1 means ALWAYS (one limit + one market order per trader)", covers=["cover.every_trader_acted"], timeout=600)]

K5 = [de("c16_noise_market_update_n2_always", "NoiseMarketAgent::update (asset 1 of 2), 2 traders, both probabilities >= 1: exactly one limit and one market order per trader on the agent's own asset", covers=["cover.every_trader_placed_both"], timeout=600),
      de("c16_noise_market_update_n2_never", "same, both probabilities 0: nothing", covers=["cover.nobody_acted"], timeout=600),
      de("c16_noise_market_update_n2_market_only", "same, p_limit = 0, p_market >= 1", covers=[], timeout=600),
      de("c16_noise_market_update_n2_interior", "same, both probabilities strictly inside (0,1)", covers=["cover.every_trader_placed_both", "cover.nobody_acted"], timeout=600, tiers=("thorough",)),
      de("c16_random_market_update_always_tick3", "RandomMarketAgents::update, one slot on asset 1 of 2 (empty or holding an order of any status), rate >= 1, tick 3: cancels its own Active order, else places one order on its own asset with price = 3 x tick in range, volume in range, trader id = index", covers=["cover.cancels", "cover.places_a_bid"], timeout=900),
      de("c16_random_market_update_never_tick1", "same, rate 0: does nothing, draws one word", covers=[], timeout=900, tiers=("thorough",)),
      de("c16_random_market_update_interior_tick10", "same, 0 < rate < 1, tick 10, single-value ranges", covers=["cover.cancels", "cover.places_a_bid"], timeout=900, tiers=("thorough",))]

PROPS["C16"] = {
    "level": "model_checking",
    "functions": ["<RandomAgents as Agent>::update", "<RandomMarketAgents as MarketAgent>::update", "<NoiseAgent as Agent>::update", "<NoiseMarketAgent as MarketAgent>::update", "agents::common::{place_buy_limit_order,place_sell_limit_order,place_buy_limit_order_market,place_sell_limit_order_market,round_price_up,round_price_down,cancel_live_orders}",
                  "Env::{place_order,cancel_order,order_status}", "MarketEnv::place_order", "OrderBook::create_order", "rand::distributions::Standard for f32 (as compiled)"],
    "assumptions": DE_ASSUME + ["price distribution = AnyDist: returns any finite f64 >= 0 (the log-normal's support; +inf excluded); mid-price = bid + 0.5 (ask - bid) of an uncrossed touch incl. the empty-side sentinels"],
    "bounds": "ticks 1..10 enumerated (quick: a subset per kernel), ALL finite f64 draws and mid-prices (bit-precise), 2 tracked orders of arbitrary status for the cancel kernel, ALL generator words",
    "outside": "runs of many steps (the per-update statement is the inductive step; its composition over steps with Env::step is stated), > 2 traders / > 1 random-agent slot / > 2 tracked orders, symbolic random-agent ranges, the statistical content of interior probabilities",
    "explanation": "Whole update() of RandomAgents / RandomMarketAgents (one slot) and NoiseAgent / NoiseMarketAgent (2 traders) with the environment's submission calls logged: probability 0 never / >= 1 always, once per trader per call, configured volumes and own trader ids, random agents inside their tick and volume ranges on the grid, cancelling only their own Active order and never holding more than one. Kernel level: the four limit-price kernels over ALL finite draws and mid-prices at each tick 1..10 (Ok, right side, on the grid, buys <= mid <= sells, configured volume and trader, no randomness besides the distribution), and the cancel kernel over ALL generator words (cancels only tracked orders that were active, returns exactly the survivors, probability 0 never / >= 1 always, one word per live order).",
    "stubs": ["LogNormal<f64> -> AnyDist in the generic kernels (the ziggurat sampler's loops are out of reach)"] + AG_COMMON_STUBS,
    "harnesses": K1 + K2 + K3 + K4 + K5,
}


def py(name, what, tiers=("quick", "thorough"), timeout=600, covers=None, **kw):
    d = {"name": name, "pkg": PY, "what": what, "tiers": tiers, "bounds": "", "timeout": timeout, "extra": FAST, "replayable": False, "covers": covers or []}
    d.update(kw)
    return d


PY_ASSUME = ["numpy::PyArray::from_slice replaced by a recording stand-in (#[kani::stub]): the array handed to numpy is read back, the numpy C-API allocation itself is not executed",
             "Python::assume_gil_acquired(): no interpreter is running; pyo3 argument extraction, exception objects and list building are outside the solver's claim",
             "rustc/Kani MIR->goto translation, CBMC 6.11 and CaDiCaL are trusted"]

PROPS["C19"] = {
    "level": "model_checking",
    "functions": ["bourse::step_sim::StepEnv::{level_1_data_array,level_2_data_array}", "bourse::step_sim_numpy::StepEnvNumpy::{level_1_data,level_2_data}", "numpy::ToPyArray for [T] / Vec<T> (as compiled, down to PyArray::from_slice)"],
    "assumptions": PY_ASSUME,
    "bounds": "all four array-returning methods; the cached Level2Data<10> (every one of its 44 fields its own variable) and the traded-volume counter fully symbolic",
    "outside": "get_market_data dictionaries (HashMap<String, _> under SipHash is out of reach) and the pandas data-frame helpers in data_processing.py (Python, pandas not installed)",
    "explanation": "For every market state behind the environment, each of the four observation arrays has the documented length (9 / 45) and element k holds the quantity the documentation assigns to index k: traded volume, bid price, ask price, bid volume, ask volume, then per level bid volume, bid order count, ask volume, ask order count.",
    "stubs": ["numpy::PyArray::from_slice -> bourse::verif::stub_from_slice"],
    "harnesses": [py("c19_stepenv_level_1_data_array", "StepEnv.level_1_data_array: length 9, element k == documented quantity k"),
                  py("c19_stepenv_level_2_data_array", "StepEnv.level_2_data_array: length 45, element k == documented quantity k"),
                  py("c19_numpyenv_level_1_data", "StepEnvNumpy.level_1_data: length 9, element k == documented quantity k"),
                  py("c19_numpyenv_level_2_data", "StepEnvNumpy.level_2_data: length 45, element k == documented quantity k")],
}


AG_STUBS = ["f64::tanh -> contract model (result in [-1,1], sign preserved, 0 at 0; exactly +-1 for |x| >= 20 in the saturated harnesses): libm tanh is a foreign function Kani cannot execute",
            "agents::common::place_{buy,sell}_limit_order{,_market} -> submit a limit order of the given side / volume / trader at an arbitrary on-grid price (the kernels themselves are decided by C16's kernel harnesses)",
            "agents::common::cancel_live_orders{,_market} -> returns no tracked orders (decided by C16's cancel-kernel harnesses)",
            "Env::place_order / MarketEnv::place_order -> same tick-grid test, submission recorded in a fixed-size log (a Vec whose length depends on the path taken is out of CBMC's reach); decided by C10's submission harnesses"]
C17_COV_U = ["cover.buys_in_rising_market", "cover.sells_in_falling_market"]
PROPS["C17"] = {
    "level": "model_checking",
    "functions": ["<MomentumAgent as Agent>::update", "<MomentumMarketAgent as MarketAgent>::update", "rand::distributions::Standard for f64 (as compiled)"],
    "assumptions": DE_ASSUME[:1] + DE_ASSUME[3:] + ["agent state (last price, previous momentum) and parameters set directly, all finite; the observed mid-price is that of an empty book (2^31 - 0.5): the signal M still ranges over every value through the symbolic previous price / momentum"],
    "bounds": "1-2 traders, decay in {0, 1/4, 1} for the signal-formula harnesses, all finite demand / scale / order-ratio / previous price / previous momentum, ALL generator words",
    "outside": "more than 2 traders; symbolic decay (equivalence of two 53-bit multiplier circuits); whole mirrored price PATHS (the per-step rule is decided for both signs of M, the composition over steps is the stated induction); libm tanh itself",
    "explanation": "One update() from arbitrary agent state: the stored signal is M = m(1-decay) + decay(P-p) bit for bit and the observed mid-price is remembered; any submitted order is a buy iff M > 0 and a sell iff M < 0, nothing at M = 0, at most one limit and one market order per trader, configured volume and own trader ids (and asset). At saturated demand (|demand tanh(scale M)|/n >= 1 and order ratio >= 1) every trader submits exactly one market and one limit order, in rising AND in falling markets (the mirror clause), independent of the previously stored momentum.",
    "stubs": AG_STUBS,
    "harnesses": [de("c17_momentum_update_n1_decay1", "update, 1 trader, decay 1: signal formula, direction, multiplicity, volume / trader", covers=C17_COV_U, timeout=900),
                  de("c17_momentum_update_n2_decay_quarter", "update, 2 traders, decay 1/4", covers=C17_COV_U, timeout=1500),
                  de("c17_momentum_update_n1_decay0", "update, 1 trader, decay 0 (signal = previous momentum)", covers=C17_COV_U, timeout=900, tiers=("thorough",)),
                  de("c17_momentum_saturated_rising_n2", "saturated demand, rising market, 2 traders: exactly one market + one limit BUY each", covers=["cover.every_trader_acted"], timeout=600),
                  de("c17_momentum_saturated_falling_n2", "saturated demand, falling market, 2 traders: exactly one market + one limit SELL each", covers=["cover.every_trader_acted"], timeout=600),
                  de("c17_momentum_saturated_falling_n1", "saturated demand, falling market, 1 trader", covers=["cover.every_trader_acted"], timeout=600),
                  de("c17_momentum_ratio_zero_rising_n2", "order ratio 0 at saturated demand, rising: never a limit order, one market BUY per trader", covers=["cover.every_trader_acted"], timeout=600),
                  de("c17_momentum_ratio_zero_falling_n1", "order ratio 0 at saturated demand, falling, 1 trader", covers=["cover.every_trader_acted"], timeout=600),
                  de("c17_momentum_market_saturated_rising_n2", "multi-asset agent, saturated, rising: one market + one limit BUY per trader on its own asset", covers=["cover.every_trader_acted"], timeout=600),
                  de("c17_momentum_market_saturated_falling_n2", "multi-asset agent, saturated, falling: one market + one limit SELL per trader on its own asset", covers=["cover.every_trader_acted"], timeout=600),
                  de("c17_momentum_ratio_zero_falling_n2", "order ratio 0 at saturated demand, falling, 2 traders: never a limit order, one market SELL per trader", covers=["cover.every_trader_acted"], timeout=600),
                  de("c17_momentum_saturated_ratio_half_rising_n2", "order ratio 1/2, demand/n >= 4 (market probability > 1, limit probability >= 1 only if derived from the UNCAPPED product): one market + one limit BUY per trader", covers=["cover.every_trader_acted"], timeout=600),
                  de("c17_momentum_saturated_ratio_half_falling_n2", "same, falling market: one market + one limit SELL per trader", covers=["cover.every_trader_acted"], timeout=600),
                  de("c17_momentum_market_saturated_ratio_half_falling_n2", "multi-asset agent, order ratio 1/2, demand/n >= 4, falling", covers=["cover.every_trader_acted"], timeout=600),
                  de("c17_momentum_market_update_n1_decay1", "multi-asset agent update, 1 trader, decay 1: signal formula stored also when nothing can be traded (signal 0, demand 0), direction, multiplicity, own asset", covers=C17_COV_U + ["cover.signal_cancelled_by_a_reversal"], timeout=900),
                  de("c17_momentum_market_update_n2_decay_half", "multi-asset agent update, 2 traders, decay 1/2", covers=C17_COV_U + ["cover.signal_cancelled_by_a_reversal"], timeout=1500, tiers=("thorough",))],
}

PROPS["C20"] = {
    "level": "model_checking",
    "functions": ["bourse_macros::AgentSet (derive, real expansion compiled by rustc)", "bourse_macros::MarketAgentSet (derive)", "Env::place_order", "MarketEnv::place_order"],
    "assumptions": DE_ASSUME[:1] + DE_ASSUME[3:] + ["struct shapes are ENUMERATED (1..8 fields, repeated and mixed member types, a member that is itself a derived set, decorated fields, both derives); inputs (environment, generator words) are symbolic"],
    "bounds": "shapes with 1..8 fields, one nested shape, unsorted field names, one-line declarations without trailing comma, decorated fields (doc comments, attributes, visibilities, raw identifier, members named env / rng / update), per derive; one update() call each; ALL generator words",
    "outside": "other shapes (more than 8 fields, tuple structs, generics - neither is accepted by the derives); the proc-macro itself runs at compile time and is exercised by compiling each shape, not symbolically",
    "explanation": "For each enumerated shape the derived update() makes exactly one submission per member, in declaration order (trader tag k+1 at position k), hands draw k of the shared generator to member k (so the generator is shared, not cloned or reseeded), runs each member's own update, and is interchangeable with the hand-written sequence of calls on a twin environment.",
    "stubs": [],
    "harnesses": [de("c20_agentset_1_2_3", "AgentSet: 1, 2 (mixed types), 3 fields (repeated type) + twin with hand-written calls", covers=["cover.distinct_words"], tests=True, timeout=900, replayable=False),
                  de("c20_agentset_4", "AgentSet: 4 fields", covers=["cover.reached_end"], tests=True, timeout=900, replayable=False),
                  de("c20_agentset_nested", "AgentSet: a member that is itself a derived set (own build, --cfg verif_nested)", covers=["cover.reached_end"], tests=True, timeout=900, replayable=False, rustflags="--cfg verif_nested"),
                  de("c20_agentset_8", "AgentSet: 8 fields of mixed types", covers=["cover.reached_end"], tests=True, timeout=900, replayable=False),
                  de("c20_marketagentset_1_3", "MarketAgentSet: 1, 3 fields", covers=["cover.reached_end"], tests=True, timeout=900, replayable=False),
                  de("c20_marketagentset_nested", "MarketAgentSet: a member that is itself a derived set (own build, --cfg verif_nested)", covers=["cover.reached_end"], tests=True, timeout=900, replayable=False, rustflags="--cfg verif_nested"),
                  de("c20_marketagentset_8", "MarketAgentSet: 8 fields", covers=["cover.reached_end"], tests=True, timeout=900, replayable=False),
                  de("c20_agentset_names_and_commas", "AgentSet: field names not in alphabetical order; one-line struct without trailing comma; single field", covers=["cover.reached_end"], tests=True, timeout=900, replayable=False),
                  de("c20_marketagentset_names_and_commas", "MarketAgentSet: same three shapes", covers=["cover.reached_end"], tests=True, timeout=900, replayable=False),
                  de("c20_agentset_decorated_5_6_7", "AgentSet: 5 decorated fields (line / block doc comments, lint / cfg / doc attributes, pub / pub(crate), raw identifier, members named env / rng / update), 6 and 7 plain fields in reverse-alphabetical and mixed-type order", covers=["cover.reached_end"], tests=True, timeout=900, replayable=False),
                  de("c20_marketagentset_decorated_5_6_7", "MarketAgentSet: same three shapes", covers=["cover.reached_end"], tests=True, timeout=900, replayable=False)],
}

PROPS["C14"] = {
    "level": "model_checking",
    "functions": ["Market::<2,L>::{new,create_order,create_and_place_order,place_order,cancel_order,modify_order,process_event,set_time,enable_trading,disable_trading,reset_trade_vols,get_time}",
                  "Market::{bid_vols,ask_vols,bid_best_vols,ask_best_vols,bid_best_vol_and_orders,ask_best_vol_and_orders,bid_levels,ask_levels,bid_asks,get_trade_vols,level_2_data}", "MarketEnv::<2,L>::step"] + BOOK_FUNCS[:2],
    "assumptions": BOOK_ASSUME + DE_ASSUME[:1],
    "bounds": "2 assets, 2-entry table per asset (+1 created), asset addressed concrete per harness (0 and 1), one market-level operation (7 kinds: create, create+place, place, cancel, modify, New event, Cancellation event; trading off) or one admin call; MarketEnv step loop with batches of 2 instructions on symbolic assets (3: out of memory)",
    "outside": "the Modify arm of Market::process_event (formula of 20-30 GB: not decided; Market::modify_order, which it forwards to, is); 3-4 assets (indexing code is uniform in ASSETS); market-level operations with trading on (the wrappers do not look at the flag; matching is C01); MarketEnv end-to-end with the real process_event",
    "explanation": "A Market<2> assembled from two independent arbitrary books: one market-level operation addressed to asset a leaves asset 1-a's complete observable snapshot and side indexes untouched and makes asset a equal to a stand-alone reference book taking the same operation; ids are (asset, per-asset sequence number); every all-asset query (incl. the re-implemented level_2_data) returns [f(book0), f(book1)]; set_time / toggles / reset reach every asset; Market::new gives each asset its own tick size and the shared clock and flag. MarketEnv<2>::step (loop harness): each asset's book receives exactly its own instructions, in the shuffled order, stamped start+i with i the position in the WHOLE batch; per-asset cache, records and per-step volumes.",
    "stubs": ["Market::process_event -> Market::verif_log_event in the market_env_step_loop_* harnesses only", "std BTreeMap -> verif_map (cfg(kani) only)"],
    "harnesses": [book(f"c14_market_{g}_asset{a}_off", f"market-level {g} addressed to asset {a}", covers=[c] if c else [], timeout=900,
                       tiers=() if g == "event_modify" else ("quick", "thorough") if (g, a) in (("create_place", 1), ("event_new", 0), ("event_cancel", 1), ("modify", 0), ("create", 0)) else ("thorough",))
                  for g, c in (("create", None), ("create_place", "cover.placed_on_addressed_asset"), ("place", None), ("cancel", None), ("modify", "cover.modify_requeued"), ("event_new", "cover.new_event_routed"),
                               ("event_cancel", "cover.cancel_event_routed"), ("event_modify", "cover.modify_event_routed")) for a in (0, 1)] + [
                  book("c14_market_admin", "set_time / toggles / reset_trade_vols reach both assets; Market::new per-asset ticks", covers=["cover.reset_reaches_asset_1"], timeout=900),
                  book("c14_market_modify_routing_small", "Market::modify_order on a market built through the public API (two asks at one price on asset 1): a restated price re-queues as in a stand-alone book, requested volume, asset 0 untouched", covers=["cover.price_only_restated"], timeout=600),
                  de("market_env_step_loop_b2", "MarketEnv<2>::step loop, 2 instructions on symbolic assets", covers=["cover.cross_asset_batch_reordered"], timeout=1500)],
}


PROPS["C08"]["harnesses"] = PROPS["C08"]["harnesses"] + [dict(h, what="multi-asset step, routing link: " + h["what"]) for h in PROPS["C14"]["harnesses"] if h["name"] in C08_ROUTING]

PROPS["C18"] = {
    "level": "model_checking",
    "functions": ["bourse::order_book::OrderBook::{set_time,enable_trading,disable_trading,ask_vol,best_ask_vol,best_ask_vol_and_orders,bid_vol,best_bid_vol,best_bid_vol_and_orders,bid_ask,order_status,place_order,cancel_order,modify_order}",
                  "bourse::step_sim::StepEnv::{time,ask_vol,best_ask_vol,best_ask_vol_and_orders,bid_vol,best_bid_vol,best_bid_vol_and_orders,trade_vol,bid_ask,order_status}", "bourse::types::{cast_order,cast_trade}", "From<Status> for u8", "From<Side> for bool"],
    "assumptions": PY_ASSUME[1:] + ["pyo3::exceptions::PyValueError::new_err replaced by a stand-in (reaching pyo3's lazy exception construction is a Kani internal compiler error): path-ending in the forwarding harnesses, counting + inert value in the two *_place_any_price_* harnesses, where core::fmt::write (the error message: integer formatting over symbolic values) is replaced by a no-op as well"],
    "bounds": "wrapper over an arbitrary 2-entry core book (10 published levels as in the Python build), one call per harness, full-width arguments",
    "outside": "CPython <-> Rust argument extraction (OverflowError), the exception OBJECT and its message (that PyValueError::new_err is what gets called is decided; what pyo3 makes of it is not), get_orders / get_trades list building (their element casts are covered), what the forwarded Env::step / place_order do (C08 / C10), JSON interchange with Python (C07's text layer)",
    "explanation": "Wrapper object and a bare core object built from the same arbitrary order table: every scalar getter returns the core's value (bid getters from bid data, ask from ask; StepEnv getters from the step snapshot and the core clock / counter), order_status returns the documented code 0..4 for every status, each mutating method (set_time, toggles, cancel, modify with every option shape, place) leaves the wrapped book equal to a reference driven by the same call with True = bid, an off-grid price makes OrderBook.place_order / StepEnv.place_order build exactly one ValueError and leaves the object unchanged, and the order / trade tuple casts put the documented field at every position.",
    "stubs": ["pyo3::exceptions::PyValueError::new_err -> path ends (assume false) / counted inert value", "core::fmt::write -> no-op (error-path harnesses only)", "OrderBook::process_event -> logging stand-in in c18_stepenv_step_uses_its_own_generator only", "std BTreeMap -> verif_map (cfg(kani) only)"],
    "harnesses": [py("c18_orderbook_getters", "OrderBook getters and status codes == core", covers=["cover.rejected_order", "cover.asymmetric_book"]),
                  py("c18_orderbook_operations_off", "OrderBook.set_time / toggles / cancel / modify / place forward unchanged (trading off)", covers=["cover.bid_placed_through_the_wrapper", "cover.modify_restates_the_current_price", "cover.pure_reduction"]),
                  dict(book("c07_reload_m2", "snapshot interchange, Rust side: what the Python OrderBook.load_json hands to (derived decode + TryFrom<OrderBookState>) restores every scalar, record, key and both side indexes from an arbitrary order table (unplaced, rejected, cancelled orders included)", covers=["cover.two_sided_book", "cover.unplaced_and_active_orders_present"], timeout=600), replayable=True),
                  py("c18_orderbook_place_any_price_tick3_off", "OrderBook.place_order with ANY price on a tick-3 book: off the grid => exactly one ValueError is built and the wrapped book is unchanged; on the grid / market => forwarded, id returned", covers=["cover.off_grid_price_rejected", "cover.on_grid_limit_order_placed"]),
                  py("c18_stepenv_place_any_price_tick3", "StepEnv.place_order with ANY price, tick 3: off the grid => one ValueError, no order record, nothing queued; on the grid => one New instruction for the created order, arguments forwarded (True = bid)", covers=["cover.off_grid_price_rejected", "cover.on_grid_limit_order_queued"]),
                  py("c18_record_casts", "cast_order / cast_trade field positions and encodings", covers=["cover.rejected_ask"]),
                  py("c18_stepenv_getters", "StepEnv getters and status codes == core / step snapshot", covers=["cover.rejected_order"]),
                  py("c18_stepenv_step_uses_its_own_generator", "StepEnv.place/cancel/modify queue what the core queues; step() drives the core with the object's own generator, whose state carries over between steps (symbolic seed)", covers=[], timeout=900)],
}

NOT_APPLICABLE = {
    "C09": "two-run hyperproperty over whole simulations, OS processes and the progress-bar branch (kdam terminal I/O, ziggurat sampler with "
           "unbounded loops, hundreds of steps): self-composition of deterministic code is vacuously equal inside a bounded symbolic executor and "
           "the nondeterminism sources it is meant to exclude (hash seeds, addresses, process state) are not modelled; reachable fragments are "
           "claimed under C08 (step is a function of state, batch and RNG words), C15 (shuffle depends only on the words) and C18 (seeding). DESIGN.md §5",
}
