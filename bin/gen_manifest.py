#!/usr/bin/env python3
"""Regenerate /verif/MANIFEST.json from bin/registry.py (keeps the manifest and the checks in step)."""
import json
import os
import subprocess
import sys

VERIF = os.path.dirname(os.path.dirname(os.path.abspath(__file__)))
sys.path.insert(0, os.path.join(VERIF, "bin"))
import registry  # noqa: E402

ALL = [f"C{n:02d}" for n in range(1, 21)]


def hook_commits():
    try:
        out = subprocess.run(["git", "-C", "/repo", "log", "--format=%H %s"], stdout=subprocess.PIPE, text=True).stdout
        return [l.split()[0] for l in out.splitlines() if " verif hooks" in l]
    except Exception:  # noqa: BLE001
        return []


checks = []
for pid in ALL:
    spec = registry.PROPS.get(pid)
    if not spec or not spec.get("harnesses") or spec.get("unclaimed"):
        continue
    checks.append({
        "property_id": pid,
        "quick_cmd": f"bin/check {pid} --tier quick",
        "thorough_cmd": f"bin/check {pid} --tier thorough",
        "evidence_file": f"/verif/evidence/{pid}.json",
        "replay_cmd_template": f"bin/check {pid} --replay {{path}}",
        "engine": "kani-inductive-step",
        "level_claimed": {
            "category": spec.get("level", "model_checking"),
            "text": spec.get("level_text") or (
                "Bounded model checking of the real Rust code (Kani -> CBMC -> CaDiCaL): " + spec["explanation"] +
                " Holds for ALL values of the symbolic inputs within the stated bounds (" + spec["bounds"] + "); says nothing outside them (" + spec["outside"] + ")."),
            "design_ref": spec.get("design_ref", "DESIGN.md §4 " + pid),
        },
        "level_note": "; ".join(spec.get("assumptions", [])) or "see DESIGN.md §2",
        "technique": spec.get("technique", "solver-based bounded model checking of the compiled Rust code (Kani/CBMC, SAT), inductive step over a symbolic pre-state, counterexamples replayed natively"),
    })

not_app = []
for pid in ALL:
    if any(c["property_id"] == pid for c in checks):
        continue
    reason = registry.NOT_APPLICABLE.get(pid) or "check not built yet in this session (no claim is made)"
    not_app.append({"property_id": pid, "reason": reason})

manifest = {
    "version": 1,
    "setup_cmd": "bin/setup",
    "hooks": {
        "guard": "cfg(kani) (set only by cargo kani) / cfg(verif_replay) (set only by the native replay build via RUSTFLAGS)",
        "enable": "cargo kani sets --cfg kani itself; native replay: RUSTFLAGS='--cfg verif_replay' cargo build in /verif/replay (path deps on /repo)",
        "baseline_off_cmd": "cd /repo && cargo test --workspace --no-fail-fast --offline",
        "source_commits": hook_commits(),
        "add_only": True,
    },
    "engines": [
        {"name": "kani-inductive-step", "path": "/verif/bin/check", "serves_properties": [c["property_id"] for c in checks],
         "kind_free_text": "Kani 0.68 / CBMC 6.11 / CaDiCaL bounded model checking of /repo's crates with in-crate harnesses from /verif/harness; native replay crate /verif/replay"},
    ],
    "checks": checks,
    "not_applicable": not_app,
    "notes": "Exit codes of bin/check: 0 held / only listed known findings, 1 reproduced unlisted violation, 2 inconclusive (never success). Known findings: /verif/known_findings.jsonl.",
}
json.dump(manifest, open(os.path.join(VERIF, "MANIFEST.json"), "w"), indent=1)
print("MANIFEST.json:", len(checks), "checks,", len(not_app), "not applicable")
