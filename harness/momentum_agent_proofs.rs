//! Hooked into `crates/step_sim/src/agents/momentum_agent.rs` (child module: sets the agent's
//! private state directly).  C17 (+ the momentum part of C16).
#![allow(dead_code)]
#![allow(clippy::all)]
use super::*;
use crate::env::verif_proofs::placed;
use crate::verif::*;
use crate::OrderError;
#[allow(unused_imports)]
use bourse_book::verif::src::*;
use bourse_book::{vcheck, vcover, vharnesses};
use rand_distr::Distribution;

/// contract model of libm `tanh` (an unsupported foreign function under Kani): result in [-1, 1],
/// sign(tanh x) = sign x, tanh 0 = 0, NaN iff NaN, |tanh x| = 1 only for |x| > 19 (f64 saturation)
#[cfg(kani)]
pub fn tanh_model(x: f64) -> f64 {
    let y: f64 = kani::any();
    if x.is_nan() {
        kani::assume(y.is_nan());
    } else if x == 0.0 {
        kani::assume(y == 0.0);
    } else if x > 0.0 {
        kani::assume(y > 0.0 && y <= 1.0);
    } else {
        kani::assume(y < 0.0 && y >= -1.0);
    }
    y
}

/// stand-ins for the four price kernels in whole-`update` harnesses (the kernels themselves are
/// decided separately, C16 K1): submit a limit order of the given side / volume / trader at an
/// arbitrary on-grid price
pub fn stub_buy<R: RngCore, D: Distribution<f64>>(env: &mut Env, _rng: &mut R, _d: D, _mid: f64, tick: f64, vol: Vol, trader: TraderId) -> Result<OrderId, OrderError> {
    let k = any_u32();
    let t = tick as Price;
    assume(t >= 1 && (k as u64) * (t as u64) < Price::MAX as u64);
    env.place_order(Side::Bid, vol, trader, Some(k * t))
}
pub fn stub_sell<R: RngCore, D: Distribution<f64>>(env: &mut Env, _rng: &mut R, _d: D, _mid: f64, tick: f64, vol: Vol, trader: TraderId) -> Result<OrderId, OrderError> {
    let k = any_u32();
    let t = tick as Price;
    assume(t >= 1 && k >= 1 && (k as u64) * (t as u64) < Price::MAX as u64);
    env.place_order(Side::Ask, vol, trader, Some(k * t))
}
pub fn stub_cancel<R: RngCore>(_env: &mut Env, _rng: &mut R, _orders: &[OrderId], _p: f32) -> Vec<OrderId> {
    Vec::new()
}

/// `rng.gen::<f64>()` as compiled (rand 0.8.5 `Standard`): 53 random bits scaled into [0, 1)
pub fn f64_of_word(w: u64) -> f64 {
    (w >> 11) as f64 * (1.0 / 9_007_199_254_740_992.0)
}

/// one `MomentumAgent::update` with symbolic (last_price, momentum), finite parameters, n traders
pub fn momentum_update(n: usize, decay: f64) {
    let tick: Price = 1;
    let mut env: Env = Env::new(any_u64(), tick, any_u64(), any_bool());
    // empty book: the observed mid is the constant (0 + MAX) / 2; the signal M still ranges over
    // every value through the symbolic previous price and previous momentum
    let mid = env.get_orderbook().mid_price();
    let last = any_f64();
    let m0 = any_f64();
    // decay is enumerated (0, 1/4, 1): proving the stored signal equal to a recomputation for a
    // symbolic decay means proving two 53-bit multiplier circuits equivalent, which SAT cannot afford
    let demand = any_f64();
    let scale = any_f64();
    let ratio = any_f64();
    assume(last.is_finite() && m0.is_finite() && demand.is_finite() && scale.is_finite() && ratio.is_finite());
    assume(last >= 0.0 && last <= 4294967295.0 && m0.abs() <= 4294967295.0 && ratio >= 0.0 && scale > 0.0 && scale <= 1.0e6);
    let vol = any_u32();
    assume(vol >= 1);
    let mut agent = MomentumAgent {
        price_dist: LogNormal::<f64>::new(0.0, 1.0).unwrap(),
        orders: Vec::new(),
        trader_ids: if n == 1 { vec![7] } else { vec![7, 8] },
        last_price: Some(last),
        momentum: m0,
        n: n as f64,
        tick_size: tick.into(),
        params: MomentumParams { tick_size: tick, p_cancel: 0.0, trade_vol: vol, decay, demand, scale, order_ratio: ratio, price_dist_mu: 0.0, price_dist_sigma: 1.0 },
    };
    let m_expected = m0 * (1.0 - decay) + decay * (mid - last);
    assume(m_expected.is_finite());
    let mut rng = SymRng::new();
    let base_orders = 0usize;

    agent.update(&mut env, &mut rng);

    vcheck!(agent.momentum == m_expected || (agent.momentum.is_nan() && m_expected.is_nan()), "MOMENTUM.signal_is_m_1_minus_decay_plus_decay_times_price_change");
    vcheck!(agent.last_price == Some(mid), "MOMENTUM.remembers_the_mid_price_it_observed");
    let (log, n_new) = placed();
    let _ = base_orders;
    // direction: buys iff M > 0, sells iff M < 0, nothing at M == 0
    let mut dir_ok = true;
    let mut vol_ok = true;
    let mut n_market = 0usize;
    let mut n_limit = 0usize;
    let mut k = 0;
    while k < 4 {
        if k < n_new {
            let o = log[k];
            let is_bid = o.bid;
            dir_ok &= (agent.momentum > 0.0 && is_bid) || (agent.momentum < 0.0 && !is_bid);
            vol_ok &= o.vol == vol && (o.trader == 7 || (n == 2 && o.trader == 8));
            let market = o.price.is_none();
            if market {
                n_market += 1;
            } else {
                n_limit += 1;
            }
        }
        k += 1;
    }
    vcheck!(n_new <= 2 * n, "MOMENTUM.at_most_one_limit_and_one_market_order_per_trader");
    vcheck!(dir_ok, "MOMENTUM.buys_iff_signal_positive_sells_iff_negative");
    vcheck!(vol_ok, "MOMENTUM.configured_volume_and_own_trader_ids");
    if agent.momentum == 0.0 {
        vcheck!(n_new == 0, "MOMENTUM.no_order_at_zero_signal");
    }
    vcover!(n_new >= 1 && agent.momentum > 0.0, "cover.buys_in_rising_market");
    vcover!(n_new >= 1 && agent.momentum < 0.0, "cover.sells_in_falling_market");
    core::mem::forget(env);
    core::mem::forget(agent);
}

/// saturated demand: |demand * tanh(scale * M)| / n >= 1 -> exactly one market order per trader
/// (and one limit order per trader when order_ratio * that >= 1), in the direction of M
pub fn momentum_saturated(n: usize, rising: bool) {
    momentum_saturated_r(n, rising, -1.0)
}

/// `ratio_c < 0`: order ratio symbolic >= 1.  Otherwise the order ratio is the concrete `ratio_c`
/// (< 1) and demand / n >= 2 / ratio_c, so that the market-order probability exceeds 1 while the
/// limit-order probability order_ratio * demand / n is still >= 1: "always" for both, which a
/// probability capped BEFORE the limit-order probability is derived from it would not give
pub fn momentum_saturated_r(n: usize, rising: bool, ratio_c: f64) {
    let tick: Price = 1;
    let mut env: Env = Env::new(any_u64(), tick, any_u64(), any_bool());
    let mid = env.get_orderbook().mid_price();
    let last = any_f64();
    assume(last >= 0.0 && last <= 4294967295.0);
    // decay 1 (the documented example): M = P - p exactly
    if rising {
        assume(mid - last >= 1.0);
    } else {
        assume(last - mid >= 1.0);
    }
    let demand = any_f64();
    let ratio = if ratio_c < 0.0 { any_f64() } else { ratio_c };
    if ratio_c < 0.0 {
        assume(demand.is_finite() && demand >= 2.0 * n as f64 && demand <= 1.0e9);
        assume(ratio >= 1.0 && ratio <= 1.0e3);
    } else {
        assume(demand.is_finite() && demand >= (2.0 / ratio_c) * n as f64 && demand <= 1.0e9);
    }
    let vol = any_u32();
    assume(vol >= 1);
    let prev = any_f64();
    assume(prev.is_finite());
    let mut agent = MomentumAgent {
        price_dist: LogNormal::<f64>::new(0.0, 1.0).unwrap(),
        orders: Vec::new(),
        trader_ids: if n == 1 { vec![7] } else { vec![7, 8] },
        last_price: Some(last),
        momentum: prev,
        n: n as f64,
        tick_size: tick.into(),
        // scale large enough that tanh saturates for every |M| >= 1 (tanh_sat model: |x| >= 20 -> +-1)
        params: MomentumParams { tick_size: tick, p_cancel: 0.0, trade_vol: vol, decay: 1.0, demand, scale: 20.0, order_ratio: ratio, price_dist_mu: 0.0, price_dist_sigma: 1.0 },
    };
    let mut rng = SymRng::new();
    agent.update(&mut env, &mut rng);
    let (log, n_new) = placed();
    let mut n_market = 0usize;
    let mut n_limit = 0usize;
    let mut dir_ok = true;
    let mut k = 0;
    while k < 4 {
        if k < n_new {
            let o = log[k];
            let is_bid = o.bid;
            dir_ok &= is_bid == rising;
            let market = o.price.is_none();
            if market {
                n_market += 1;
            } else {
                n_limit += 1;
            }
        }
        k += 1;
    }
    vcheck!(n_market == n, "MOMENTUM.saturated_demand_one_market_order_per_trader");
    vcheck!(n_limit == n, "MOMENTUM.saturated_demand_and_ratio_one_limit_order_per_trader");
    vcheck!(dir_ok, "MOMENTUM.buys_iff_signal_positive_sells_iff_negative");
    vcover!(n_new == 2 * n, "cover.every_trader_acted");
    core::mem::forget(env);
    core::mem::forget(agent);
}

pub fn stub_buy_m<R: RngCore, D: Distribution<f64>, const M: usize, const N: usize>(env: &mut MarketEnv<M, N>, _rng: &mut R, _d: D, _mid: f64, tick: f64, vol: Vol, asset: AssetIdx, trader: TraderId) -> Result<MarketOrderId, OrderError> {
    let k = any_u32();
    let t = tick as Price;
    assume(t >= 1 && (k as u64) * (t as u64) < Price::MAX as u64);
    env.place_order(asset, Side::Bid, vol, trader, Some(k * t))
}
pub fn stub_sell_m<R: RngCore, D: Distribution<f64>, const M: usize, const N: usize>(env: &mut MarketEnv<M, N>, _rng: &mut R, _d: D, _mid: f64, tick: f64, vol: Vol, asset: AssetIdx, trader: TraderId) -> Result<MarketOrderId, OrderError> {
    let k = any_u32();
    let t = tick as Price;
    assume(t >= 1 && k >= 1 && (k as u64) * (t as u64) < Price::MAX as u64);
    env.place_order(asset, Side::Ask, vol, trader, Some(k * t))
}
pub fn stub_cancel_m<R: RngCore, const M: usize, const N: usize>(_env: &mut MarketEnv<M, N>, _rng: &mut R, _orders: &[MarketOrderId], _p: f32) -> Vec<MarketOrderId> {
    Vec::new()
}

/// the multi-asset twin of `momentum_saturated` (agent on asset 1 of a two-asset environment), with
/// an arbitrary previous momentum so that a stale read of the stored signal is visible
pub fn momentum_market_saturated(n: usize, rising: bool) {
    momentum_market_saturated_r(n, rising, -1.0)
}
pub fn momentum_market_saturated_r(n: usize, rising: bool, ratio_c: f64) {
    let tick: Price = 1;
    let mut env: MarketEnv<2, 2> = MarketEnv::new(any_u64(), [1, tick], any_u64(), any_bool());
    let mid = env.get_market().get_order_book(1).mid_price();
    let last = any_f64();
    assume(last >= 0.0 && last <= 4294967295.0);
    if rising {
        assume(mid - last >= 1.0);
    } else {
        assume(last - mid >= 1.0);
    }
    let demand = any_f64();
    let ratio = if ratio_c < 0.0 { any_f64() } else { ratio_c };
    if ratio_c < 0.0 {
        assume(demand.is_finite() && demand >= 2.0 * n as f64 && demand <= 1.0e9);
        assume(ratio >= 1.0 && ratio <= 1.0e3);
    } else {
        assume(demand.is_finite() && demand >= (2.0 / ratio_c) * n as f64 && demand <= 1.0e9);
    }
    let vol = any_u32();
    assume(vol >= 1);
    let prev = any_f64();
    assume(prev.is_finite());
    let mut agent = MomentumMarketAgent {
        price_dist: LogNormal::<f64>::new(0.0, 1.0).unwrap(),
        orders: Vec::new(),
        trader_ids: if n == 1 { vec![7] } else { vec![7, 8] },
        last_price: Some(last),
        // decay 1: the previous momentum must not matter
        momentum: prev,
        n: n as f64,
        asset: 1,
        tick_size: tick.into(),
        params: MomentumParams { tick_size: tick, p_cancel: 0.0, trade_vol: vol, decay: 1.0, demand, scale: 20.0, order_ratio: ratio, price_dist_mu: 0.0, price_dist_sigma: 1.0 },
    };
    let mut rng = SymRng::new();
    agent.update(&mut env, &mut rng);
    let (log, n_new) = placed();
    let mut n_market = 0usize;
    let mut n_limit = 0usize;
    let mut dir_ok = true;
    let mut asset_ok = true;
    let mut k = 0;
    while k < 4 {
        if k < n_new {
            let o = log[k];
            dir_ok &= o.bid == rising;
            asset_ok &= o.asset == 1 && o.vol == vol && (o.trader == 7 || (n == 2 && o.trader == 8));
            if o.price.is_none() {
                n_market += 1;
            } else {
                n_limit += 1;
            }
        }
        k += 1;
    }
    vcheck!(n_market == n, "MOMENTUM.saturated_demand_one_market_order_per_trader");
    vcheck!(n_limit == n, "MOMENTUM.saturated_demand_and_ratio_one_limit_order_per_trader");
    vcheck!(dir_ok, "MOMENTUM.buys_iff_signal_positive_sells_iff_negative");
    vcheck!(asset_ok, "MOMENTUM.own_asset_volume_and_trader_ids");
    vcheck!(agent.last_price == Some(mid), "MOMENTUM.remembers_the_mid_price_it_observed");
    vcover!(n_new == 2 * n, "cover.every_trader_acted");
    core::mem::forget(env);
    core::mem::forget(agent);
}

/// the multi-asset twin of `momentum_update`: one `MomentumMarketAgent::update` (agent on asset 1 of
/// a two-asset environment) from symbolic (last_price, momentum) and finite parameters - demand 0
/// and a signal of exactly 0 included, so that a shortcut taken when nothing can be traded is seen
/// to store the signal and the observed price all the same
pub fn momentum_market_update(n: usize, decay: f64) {
    let tick: Price = 1;
    let mut env: MarketEnv<2, 2> = MarketEnv::new(any_u64(), [1, tick], any_u64(), any_bool());
    let mid = env.get_market().get_order_book(1).mid_price();
    let last = any_f64();
    let m0 = any_f64();
    let demand = any_f64();
    let scale = any_f64();
    let ratio = any_f64();
    assume(last.is_finite() && m0.is_finite() && demand.is_finite() && scale.is_finite() && ratio.is_finite());
    assume(last >= 0.0 && last <= 4294967295.0 && m0.abs() <= 4294967295.0 && ratio >= 0.0 && scale > 0.0 && scale <= 1.0e6);
    let vol = any_u32();
    assume(vol >= 1);
    let mut agent = MomentumMarketAgent {
        price_dist: LogNormal::<f64>::new(0.0, 1.0).unwrap(),
        orders: Vec::new(),
        trader_ids: if n == 1 { vec![7] } else { vec![7, 8] },
        last_price: Some(last),
        momentum: m0,
        n: n as f64,
        asset: 1,
        tick_size: tick.into(),
        params: MomentumParams { tick_size: tick, p_cancel: 0.0, trade_vol: vol, decay, demand, scale, order_ratio: ratio, price_dist_mu: 0.0, price_dist_sigma: 1.0 },
    };
    let m_expected = m0 * (1.0 - decay) + decay * (mid - last);
    assume(m_expected.is_finite());
    let mut rng = SymRng::new();
    agent.update(&mut env, &mut rng);
    vcheck!(agent.momentum == m_expected, "MOMENTUM.signal_is_m_1_minus_decay_plus_decay_times_price_change");
    vcheck!(agent.last_price == Some(mid), "MOMENTUM.remembers_the_mid_price_it_observed");
    let (log, n_new) = placed();
    let mut dir_ok = true;
    let mut own_ok = true;
    let mut n_market = 0usize;
    let mut n_limit = 0usize;
    let mut k = 0;
    while k < 4 {
        if k < n_new {
            let o = log[k];
            dir_ok &= (agent.momentum > 0.0 && o.bid) || (agent.momentum < 0.0 && !o.bid);
            own_ok &= o.asset == 1 && o.vol == vol && (o.trader == 7 || (n == 2 && o.trader == 8));
            if o.price.is_none() {
                n_market += 1;
            } else {
                n_limit += 1;
            }
        }
        k += 1;
    }
    vcheck!(n_market <= n && n_limit <= n, "MOMENTUM.at_most_one_limit_and_one_market_order_per_trader");
    vcheck!(dir_ok, "MOMENTUM.buys_iff_signal_positive_sells_iff_negative");
    vcheck!(own_ok, "MOMENTUM.own_asset_volume_and_trader_ids");
    if m_expected == 0.0 {
        vcheck!(n_new == 0, "MOMENTUM.no_order_at_zero_signal");
    }
    if demand == 0.0 {
        vcheck!(n_new == 0, "MOMENTUM.no_order_at_zero_demand");
    }
    vcover!(n_new >= 1 && agent.momentum > 0.0, "cover.buys_in_rising_market");
    vcover!(n_new >= 1 && agent.momentum < 0.0, "cover.sells_in_falling_market");
    vcover!(m_expected == 0.0 && m0 != 0.0, "cover.signal_cancelled_by_a_reversal");
    core::mem::forget(env);
    core::mem::forget(agent);
}

/// the two documented probabilities are distinct quantities: with order ratio 0 the limit-order
/// probability is 0 (never), while saturated demand makes the market-order probability >= 1 (always)
pub fn momentum_ratio_zero(n: usize, rising: bool) {
    let tick: Price = 1;
    let mut env: Env = Env::new(any_u64(), tick, any_u64(), any_bool());
    let mid = env.get_orderbook().mid_price();
    let last = any_f64();
    assume(last >= 0.0 && last <= 4294967295.0);
    if rising {
        assume(mid - last >= 1.0);
    } else {
        assume(last - mid >= 1.0);
    }
    let demand = any_f64();
    assume(demand.is_finite() && demand >= 2.0 * n as f64 && demand <= 1.0e9);
    let vol = any_u32();
    assume(vol >= 1);
    let mut agent = MomentumAgent {
        price_dist: LogNormal::<f64>::new(0.0, 1.0).unwrap(),
        orders: Vec::new(),
        trader_ids: if n == 1 { vec![7] } else { vec![7, 8] },
        last_price: Some(last),
        momentum: 0.0,
        n: n as f64,
        tick_size: tick.into(),
        params: MomentumParams { tick_size: tick, p_cancel: 0.0, trade_vol: vol, decay: 1.0, demand, scale: 20.0, order_ratio: 0.0, price_dist_mu: 0.0, price_dist_sigma: 1.0 },
    };
    let mut rng = SymRng::new();
    agent.update(&mut env, &mut rng);
    let (log, n_new) = placed();
    let mut n_market = 0usize;
    let mut n_limit = 0usize;
    let mut k = 0;
    while k < 4 {
        if k < n_new {
            if log[k].price.is_none() {
                n_market += 1;
            } else {
                n_limit += 1;
            }
        }
        k += 1;
    }
    vcheck!(n_limit == 0, "MOMENTUM.limit_probability_zero_never_places_a_limit_order");
    vcheck!(n_market == n, "MOMENTUM.saturated_demand_one_market_order_per_trader");
    vcover!(n_new == n, "cover.every_trader_acted");
    core::mem::forget(env);
    core::mem::forget(agent);
}

/// tanh on saturated arguments only: |x| >= 20 -> exactly +-1 (true of every correctly rounded and
/// of glibc's f64 tanh, which returns +-1 for |x| > 19.06)
#[cfg(kani)]
pub fn tanh_sat(x: f64) -> f64 {
    kani::assume(x.is_finite() && x.abs() >= 20.0);
    if x > 0.0 {
        1.0
    } else {
        -1.0
    }
}

vharnesses! {
    #[cfg_attr(kani, kani::unwind(12))]
    #[cfg_attr(kani, kani::stub(f64::tanh, tanh_model))]
    #[cfg_attr(kani, kani::stub(crate::agents::common::place_buy_limit_order, stub_buy))]
    #[cfg_attr(kani, kani::stub(crate::agents::common::place_sell_limit_order, stub_sell))]
    #[cfg_attr(kani, kani::stub(crate::agents::common::cancel_live_orders, stub_cancel))]
    #[cfg_attr(kani, kani::stub(crate::Env::place_order, crate::Env::verif_log_place_order))]
    fn c17_momentum_update_n1_decay1() { momentum_update(1, 1.0) }
    #[cfg_attr(kani, kani::unwind(12))]
    #[cfg_attr(kani, kani::stub(f64::tanh, tanh_model))]
    #[cfg_attr(kani, kani::stub(crate::agents::common::place_buy_limit_order, stub_buy))]
    #[cfg_attr(kani, kani::stub(crate::agents::common::place_sell_limit_order, stub_sell))]
    #[cfg_attr(kani, kani::stub(crate::agents::common::cancel_live_orders, stub_cancel))]
    #[cfg_attr(kani, kani::stub(crate::Env::place_order, crate::Env::verif_log_place_order))]
    fn c17_momentum_update_n2_decay_quarter() { momentum_update(2, 0.25) }
    #[cfg_attr(kani, kani::unwind(12))]
    #[cfg_attr(kani, kani::stub(f64::tanh, tanh_model))]
    #[cfg_attr(kani, kani::stub(crate::agents::common::place_buy_limit_order, stub_buy))]
    #[cfg_attr(kani, kani::stub(crate::agents::common::place_sell_limit_order, stub_sell))]
    #[cfg_attr(kani, kani::stub(crate::agents::common::cancel_live_orders, stub_cancel))]
    #[cfg_attr(kani, kani::stub(crate::Env::place_order, crate::Env::verif_log_place_order))]
    fn c17_momentum_update_n1_decay0() { momentum_update(1, 0.0) }
    #[cfg_attr(kani, kani::unwind(12))]
    #[cfg_attr(kani, kani::stub(f64::tanh, tanh_sat))]
    #[cfg_attr(kani, kani::stub(crate::agents::common::place_buy_limit_order, stub_buy))]
    #[cfg_attr(kani, kani::stub(crate::agents::common::place_sell_limit_order, stub_sell))]
    #[cfg_attr(kani, kani::stub(crate::agents::common::cancel_live_orders, stub_cancel))]
    #[cfg_attr(kani, kani::stub(crate::Env::place_order, crate::Env::verif_log_place_order))]
    fn c17_momentum_saturated_rising_n2() { momentum_saturated(2, true) }
    #[cfg_attr(kani, kani::unwind(12))]
    #[cfg_attr(kani, kani::stub(f64::tanh, tanh_sat))]
    #[cfg_attr(kani, kani::stub(crate::agents::common::place_buy_limit_order, stub_buy))]
    #[cfg_attr(kani, kani::stub(crate::agents::common::place_sell_limit_order, stub_sell))]
    #[cfg_attr(kani, kani::stub(crate::agents::common::cancel_live_orders, stub_cancel))]
    #[cfg_attr(kani, kani::stub(crate::Env::place_order, crate::Env::verif_log_place_order))]
    fn c17_momentum_saturated_falling_n2() { momentum_saturated(2, false) }
    #[cfg_attr(kani, kani::unwind(12))]
    #[cfg_attr(kani, kani::stub(f64::tanh, tanh_sat))]
    #[cfg_attr(kani, kani::stub(crate::agents::common::place_buy_limit_order, stub_buy))]
    #[cfg_attr(kani, kani::stub(crate::agents::common::place_sell_limit_order, stub_sell))]
    #[cfg_attr(kani, kani::stub(crate::agents::common::cancel_live_orders, stub_cancel))]
    #[cfg_attr(kani, kani::stub(crate::Env::place_order, crate::Env::verif_log_place_order))]
    fn c17_momentum_saturated_falling_n1() { momentum_saturated(1, false) }
    #[cfg_attr(kani, kani::unwind(12))]
    #[cfg_attr(kani, kani::stub(f64::tanh, tanh_sat))]
    #[cfg_attr(kani, kani::stub(crate::agents::common::place_buy_limit_order, stub_buy))]
    #[cfg_attr(kani, kani::stub(crate::agents::common::place_sell_limit_order, stub_sell))]
    #[cfg_attr(kani, kani::stub(crate::agents::common::cancel_live_orders, stub_cancel))]
    #[cfg_attr(kani, kani::stub(crate::Env::place_order, crate::Env::verif_log_place_order))]
    fn c17_momentum_ratio_zero_rising_n2() { momentum_ratio_zero(2, true) }
    #[cfg_attr(kani, kani::unwind(12))]
    #[cfg_attr(kani, kani::stub(f64::tanh, tanh_sat))]
    #[cfg_attr(kani, kani::stub(crate::agents::common::place_buy_limit_order, stub_buy))]
    #[cfg_attr(kani, kani::stub(crate::agents::common::place_sell_limit_order, stub_sell))]
    #[cfg_attr(kani, kani::stub(crate::agents::common::cancel_live_orders, stub_cancel))]
    #[cfg_attr(kani, kani::stub(crate::Env::place_order, crate::Env::verif_log_place_order))]
    fn c17_momentum_ratio_zero_falling_n1() { momentum_ratio_zero(1, false) }
    #[cfg_attr(kani, kani::unwind(12))]
    #[cfg_attr(kani, kani::stub(f64::tanh, tanh_sat))]
    #[cfg_attr(kani, kani::stub(crate::agents::common::place_buy_limit_order_market, stub_buy_m))]
    #[cfg_attr(kani, kani::stub(crate::agents::common::place_sell_limit_order_market, stub_sell_m))]
    #[cfg_attr(kani, kani::stub(crate::agents::common::cancel_live_orders_market, stub_cancel_m))]
    #[cfg_attr(kani, kani::stub(crate::MarketEnv::place_order, crate::MarketEnv::verif_log_place_order))]
    fn c17_momentum_market_saturated_rising_n2() { momentum_market_saturated(2, true) }
    #[cfg_attr(kani, kani::unwind(12))]
    #[cfg_attr(kani, kani::stub(f64::tanh, tanh_sat))]
    #[cfg_attr(kani, kani::stub(crate::agents::common::place_buy_limit_order_market, stub_buy_m))]
    #[cfg_attr(kani, kani::stub(crate::agents::common::place_sell_limit_order_market, stub_sell_m))]
    #[cfg_attr(kani, kani::stub(crate::agents::common::cancel_live_orders_market, stub_cancel_m))]
    #[cfg_attr(kani, kani::stub(crate::MarketEnv::place_order, crate::MarketEnv::verif_log_place_order))]
    fn c17_momentum_market_saturated_falling_n2() { momentum_market_saturated(2, false) }
    #[cfg_attr(kani, kani::unwind(12))]
    #[cfg_attr(kani, kani::stub(f64::tanh, tanh_sat))]
    #[cfg_attr(kani, kani::stub(crate::agents::common::place_buy_limit_order, stub_buy))]
    #[cfg_attr(kani, kani::stub(crate::agents::common::place_sell_limit_order, stub_sell))]
    #[cfg_attr(kani, kani::stub(crate::agents::common::cancel_live_orders, stub_cancel))]
    #[cfg_attr(kani, kani::stub(crate::Env::place_order, crate::Env::verif_log_place_order))]
    fn c17_momentum_saturated_ratio_half_rising_n2() { momentum_saturated_r(2, true, 0.5) }
    #[cfg_attr(kani, kani::unwind(12))]
    #[cfg_attr(kani, kani::stub(f64::tanh, tanh_sat))]
    #[cfg_attr(kani, kani::stub(crate::agents::common::place_buy_limit_order, stub_buy))]
    #[cfg_attr(kani, kani::stub(crate::agents::common::place_sell_limit_order, stub_sell))]
    #[cfg_attr(kani, kani::stub(crate::agents::common::cancel_live_orders, stub_cancel))]
    #[cfg_attr(kani, kani::stub(crate::Env::place_order, crate::Env::verif_log_place_order))]
    fn c17_momentum_saturated_ratio_half_falling_n2() { momentum_saturated_r(2, false, 0.5) }
    #[cfg_attr(kani, kani::unwind(12))]
    #[cfg_attr(kani, kani::stub(f64::tanh, tanh_sat))]
    #[cfg_attr(kani, kani::stub(crate::agents::common::place_buy_limit_order, stub_buy))]
    #[cfg_attr(kani, kani::stub(crate::agents::common::place_sell_limit_order, stub_sell))]
    #[cfg_attr(kani, kani::stub(crate::agents::common::cancel_live_orders, stub_cancel))]
    #[cfg_attr(kani, kani::stub(crate::Env::place_order, crate::Env::verif_log_place_order))]
    fn c17_momentum_ratio_zero_falling_n2() { momentum_ratio_zero(2, false) }
    #[cfg_attr(kani, kani::unwind(12))]
    #[cfg_attr(kani, kani::stub(f64::tanh, tanh_sat))]
    #[cfg_attr(kani, kani::stub(crate::agents::common::place_buy_limit_order_market, stub_buy_m))]
    #[cfg_attr(kani, kani::stub(crate::agents::common::place_sell_limit_order_market, stub_sell_m))]
    #[cfg_attr(kani, kani::stub(crate::agents::common::cancel_live_orders_market, stub_cancel_m))]
    #[cfg_attr(kani, kani::stub(crate::MarketEnv::place_order, crate::MarketEnv::verif_log_place_order))]
    fn c17_momentum_market_saturated_ratio_half_falling_n2() { momentum_market_saturated_r(2, false, 0.5) }
    #[cfg_attr(kani, kani::unwind(12))]
    #[cfg_attr(kani, kani::stub(f64::tanh, tanh_model))]
    #[cfg_attr(kani, kani::stub(crate::agents::common::place_buy_limit_order_market, stub_buy_m))]
    #[cfg_attr(kani, kani::stub(crate::agents::common::place_sell_limit_order_market, stub_sell_m))]
    #[cfg_attr(kani, kani::stub(crate::agents::common::cancel_live_orders_market, stub_cancel_m))]
    #[cfg_attr(kani, kani::stub(crate::MarketEnv::place_order, crate::MarketEnv::verif_log_place_order))]
    fn c17_momentum_market_update_n1_decay1() { momentum_market_update(1, 1.0) }
    #[cfg_attr(kani, kani::unwind(12))]
    #[cfg_attr(kani, kani::stub(f64::tanh, tanh_model))]
    #[cfg_attr(kani, kani::stub(crate::agents::common::place_buy_limit_order_market, stub_buy_m))]
    #[cfg_attr(kani, kani::stub(crate::agents::common::place_sell_limit_order_market, stub_sell_m))]
    #[cfg_attr(kani, kani::stub(crate::agents::common::cancel_live_orders_market, stub_cancel_m))]
    #[cfg_attr(kani, kani::stub(crate::MarketEnv::place_order, crate::MarketEnv::verif_log_place_order))]
    fn c17_momentum_market_update_n2_decay_half() { momentum_market_update(2, 0.5) }
}
