//! Hooked into `crates/order_book/src/side.rs` (child module: sees private fields).
//! Observation accessors for the two side indexes + proofs about the map stand-in.
#![allow(dead_code)]
use super::*;
#[allow(unused_imports)]
use crate::verif::src::*;
use crate::{vcheck, vcover, vharnesses};

/// Number of index entries compared by `verif_same` (all slots of the stand-in map under Kani;
/// the lengths are compared as well, so nothing beyond is missed).
#[cfg(kani)]
pub const OBS: usize = super::verif_map::CAP;
#[cfg(not(kani))]
pub const OBS: usize = 8;

impl OrderBookSide {
    pub(crate) fn verif_nth_order(&self, i: usize) -> Option<((Price, Nanos), OrderId)> {
        #[cfg(kani)]
        {
            self.orders.verif_nth(i)
        }
        #[cfg(not(kani))]
        {
            self.orders.iter().nth(i).map(|(k, v)| (*k, *v))
        }
    }
    pub(crate) fn verif_nth_volume(&self, i: usize) -> Option<(Price, (Vol, OrderCount))> {
        #[cfg(kani)]
        {
            self.volumes.verif_nth(i)
        }
        #[cfg(not(kani))]
        {
            self.volumes.iter().nth(i).map(|(k, v)| (*k, *v))
        }
    }
    pub(crate) fn verif_get_order(&self, pk: Price, t: Nanos) -> Option<OrderId> {
        self.orders.get(&(pk, t)).copied()
    }
    pub(crate) fn verif_get_volume(&self, pk: Price) -> Option<(Vol, OrderCount)> {
        self.volumes.get(&pk).copied()
    }
    pub(crate) fn verif_orders_len(&self) -> usize {
        self.orders.len()
    }
    pub(crate) fn verif_volumes_len(&self) -> usize {
        self.volumes.len()
    }
    pub(crate) fn verif_total(&self) -> Vol {
        self.vol
    }
    /// true iff both indexes hold exactly the same entries
    pub(crate) fn verif_same(&self, other: &OrderBookSide) -> bool {
        let mut same = self.vol == other.vol;
        same &= self.orders.len() == other.orders.len() && self.volumes.len() == other.volumes.len();
        let mut i = 0;
        while i < OBS {
            same &= self.verif_nth_order(i) == other.verif_nth_order(i);
            same &= self.verif_nth_volume(i) == other.verif_nth_volume(i);
            i += 1;
        }
        same
    }
}

impl BidSide {
    pub(crate) fn verif_inner(&self) -> &OrderBookSide {
        &self.0
    }
}
impl AskSide {
    pub(crate) fn verif_inner(&self) -> &OrderBookSide {
        &self.0
    }
}

vharnesses! {
    /// The stand-in map agrees with a naive reference on any 3 symbolic operations
    /// (insert / remove / lookups) over symbolic keys: ordering, replace-on-insert,
    /// removal and first_key_value — the `BTreeMap` semantics `side.rs` relies on.
    #[cfg_attr(kani, kani::unwind(6))]
    fn map_stub_matches_reference() {
        #[cfg(kani)]
        {
            use super::verif_map::BTreeMap as M;
            let mut m: M<(u32, u64), usize> = M::default();
            // reference: unsorted slots
            let mut rk: [(u32, u64); 3] = [(0, 0); 3];
            let mut rv: [usize; 3] = [0; 3];
            let mut ru: [bool; 3] = [false; 3];
            let mut step = 0;
            while step < 3 {
                let k = (any_u8() as u32 % 3, any_u8() as u64 % 2);
                let v = any_usize();
                let ins = any_bool();
                // reference lookup
                let mut found: Option<usize> = None;
                let mut j = 0;
                while j < 3 {
                    if ru[j] && rk[j] == k { found = Some(j); }
                    j += 1;
                }
                if ins {
                    let old = m.insert(k, v);
                    match found {
                        Some(j) => { vcheck!(old == Some(rv[j]), "MAP.insert_replaces_and_returns_old"); rv[j] = v; }
                        None => {
                            vcheck!(old.is_none(), "MAP.insert_fresh_returns_none");
                            let mut j = 0; let mut done = false;
                            while j < 3 { if !ru[j] && !done { ru[j] = true; rk[j] = k; rv[j] = v; done = true; } j += 1; }
                        }
                    }
                } else {
                    let old = m.remove(&k);
                    match found {
                        Some(j) => { vcheck!(old == Some(rv[j]), "MAP.remove_returns_value"); ru[j] = false; }
                        None => vcheck!(old.is_none(), "MAP.remove_absent_none"),
                    }
                }
                // first_key_value == minimum of the reference
                let mut min: Option<((u32, u64), usize)> = None;
                let mut cnt = 0;
                let mut j = 0;
                while j < 3 {
                    if ru[j] {
                        cnt += 1;
                        match min { Some((mk, _)) if mk <= rk[j] => (), _ => min = Some((rk[j], rv[j])) }
                    }
                    j += 1;
                }
                vcheck!(m.len() == cnt, "MAP.len");
                vcheck!(m.first_key_value().map(|(a, b)| (*a, *b)) == min, "MAP.first_is_minimum");
                let probe = (any_u8() as u32 % 3, any_u8() as u64 % 2);
                let mut exp: Option<usize> = None;
                let mut j = 0;
                while j < 3 { if ru[j] && rk[j] == probe { exp = Some(rv[j]); } j += 1; }
                vcheck!(m.get(&probe).copied() == exp, "MAP.get");
                step += 1;
            }
            vcover!(m.len() == 3, "MAP.cover_three_entries");
        }
    }
}
