//! Hooked into `crates/order_book/src/market.rs` (child module: sees `Market`'s private field).
//!
//! C14: a `Market<2, L>` built from two independent symbolic books; one market-level operation on
//! one asset vs. two shadow images (the addressed one takes the same operation through the
//! reference engine, the other must stay untouched); all-asset queries in asset order.
#![allow(dead_code)]
#![allow(clippy::all)]
use super::*;
use crate::orderbook::verif_proofs::*;
#[allow(unused_imports)]
use crate::verif::src::*;
use crate::types::Status;
use crate::{vcheck, vcover, vharnesses};

impl<const A: usize, const L: usize> Market<A, L> {
    /// assemble a market from given books (harness constructor)
    pub fn verif_from_books(order_books: [OrderBook<L>; A]) -> Self {
        Self { order_books }
    }
    pub fn verif_book(&self, i: usize) -> &OrderBook<L> {
        &self.order_books[i]
    }
}

/// one processed instruction as seen by the logging stand-in
#[derive(Clone, Copy)]
pub struct Logged {
    pub asset: usize,
    pub t: Nanos,
    pub code: usize,
    pub id: usize,
    pub price: Price,
    pub vol: Vol,
}
pub const MLOG_CAP: usize = 8;
pub static mut MLOG: [Logged; MLOG_CAP] = [Logged { asset: 0, t: 0, code: 0, id: 0, price: 0, vol: 0 }; MLOG_CAP];
pub static mut MLOG_N: usize = 0;
pub fn market_log() -> ([Logged; MLOG_CAP], usize) {
    unsafe { (MLOG, MLOG_N) }
}

// (generic parameters named as in the crate: Kani compares stub signatures nominally)
impl<const ASSETS: usize, const LEVELS: usize> Market<ASSETS, LEVELS> {
    /// Stand-in for `Market::process_event` in step-LOOP harnesses of the multi-asset environment:
    /// records (asset, market time at the call, kind / id / arguments) in a fixed-size log and adds 1
    /// to the addressed book's traded-volume counter; touches nothing else.  The real routing of
    /// `Market::process_event` is decided by the c14_market_op_* harnesses.
    pub fn verif_log_event(&mut self, event: Event<MarketOrderId>) {
        let (kind, oid, np, nv) = match event {
            Event::New { order_id } => (0usize, order_id, None, None),
            Event::Cancellation { order_id } => (1usize, order_id, None, None),
            Event::Modify { order_id, new_price, new_vol } => (2usize, order_id, new_price, new_vol),
        };
        let code = kind + if np.is_some() { 4 } else { 0 } + if nv.is_some() { 8 } else { 0 };
        let t = self.get_time();
        unsafe {
            let n = MLOG_N;
            if n < MLOG_CAP {
                MLOG[n] = Logged { asset: oid.0, t, code, id: oid.1, price: np.unwrap_or(0), vol: nv.unwrap_or(0) };
            }
            MLOG_N = n + 1;
        }
        self.order_books[oid.0].verif_add_trade_vol(1);
    }
}

/// every all-asset query returns each asset's own value, in asset order
pub fn queries_in_asset_order<const L: usize>(m: &Market<2, L>) -> bool {
    // (element-wise: `==` on arrays is a memcmp loop the unwind bound would have to cover)
    let b0 = m.verif_book(0);
    let b1 = m.verif_book(1);
    let (x, y) = (m.bid_vols(), m.ask_vols());
    let mut ok = x[0] == b0.bid_vol() && x[1] == b1.bid_vol() && y[0] == b0.ask_vol() && y[1] == b1.ask_vol();
    let (x, y) = (m.bid_best_vols(), m.ask_best_vols());
    ok &= x[0] == b0.bid_best_vol() && x[1] == b1.bid_best_vol() && y[0] == b0.ask_best_vol() && y[1] == b1.ask_best_vol();
    let (x, y) = (m.bid_best_vol_and_orders(), m.ask_best_vol_and_orders());
    ok &= x[0] == b0.bid_best_vol_and_orders() && x[1] == b1.bid_best_vol_and_orders() && y[0] == b0.ask_best_vol_and_orders() && y[1] == b1.ask_best_vol_and_orders();
    let x = m.bid_asks();
    ok &= x[0] == b0.bid_ask() && x[1] == b1.bid_ask();
    let x = m.get_trade_vols();
    ok &= x[0] == b0.get_trade_vol() && x[1] == b1.get_trade_vol();
    let (bl, al) = (m.bid_levels(), m.ask_levels());
    let (l0b, l1b, l0a, l1a) = (b0.bid_levels(), b1.bid_levels(), b0.ask_levels(), b1.ask_levels());
    let l2 = m.level_2_data();
    let (d0, d1) = (b0.level_2_data(), b1.level_2_data());
    ok &= l2[0].bid_price == d0.bid_price && l2[0].ask_price == d0.ask_price && l2[0].bid_vol == d0.bid_vol && l2[0].ask_vol == d0.ask_vol;
    ok &= l2[1].bid_price == d1.bid_price && l2[1].ask_price == d1.ask_price && l2[1].bid_vol == d1.bid_vol && l2[1].ask_vol == d1.ask_vol;
    let mut l = 0;
    while l < L {
        ok &= bl[0][l] == l0b[l] && bl[1][l] == l1b[l] && al[0][l] == l0a[l] && al[1][l] == l1a[l];
        ok &= l2[0].bid_price_levels[l] == l0b[l] && l2[1].bid_price_levels[l] == l1b[l];
        ok &= l2[0].ask_price_levels[l] == l0a[l] && l2[1].ask_price_levels[l] == l1a[l];
        l += 1;
    }
    ok
}

/// one market-level operation addressed to asset `a` (concrete per harness), trading flag per cfg
pub fn step_market_op<const N: usize, const L: usize, const WHICH: u8>(m: usize, a: usize, cfg: GenCfg, mo: usize) {
    // `m` entries in the addressed asset's table, `mo` in the other asset's
    let p0: Plain<N> = gen_plain::<N>(if a == 0 { m } else { mo }, cfg);
    let mut p1: Plain<N> = gen_plain::<N>(if a == 0 { mo } else { m }, cfg);
    // one clock and one trading flag are shared by construction (Market::new / set_time / toggles)
    p1.t = p0.t;
    p1.trading = p0.trading;
    let (b0, old0) = build_with_log::<N, L>(&p0, cfg.ntrades);
    let (b1, old1) = build_with_log::<N, L>(&p1, cfg.ntrades);
    let mut market: Market<2, L> = Market::verif_from_books([b0, b1]);
    let pa = if a == 0 { p0 } else { p1 };
    let po = if a == 0 { p1 } else { p0 };
    let (olda, oldo) = if a == 0 { (old0, old1) } else { (old1, old0) };
    let mut r = pa;
    // one operation kind per harness (compile-time constant: all kinds in one formula exceed the
    // memory budget): 0 create, 1 create+place, 2 place, 3 cancel, 4 modify, 5/6/7 the matching events
    let which: u8 = WHICH;
    let id = any_usize();
    assume(id < m);
    let bid = any_bool();
    let vol = any_u32();
    let trader = any_u32();
    let price = if any_bool() { Some(g_price(true, pa.tick)) } else { None };
    let nv = any_u32();
    let mut expect_len = m;
    match which {
        0 => {
            assume(vol >= 1);
            let got = market.create_order(a, mk_side(bid), vol, trader, price);
            let exp = ref_create(&mut r, bid, vol, trader, price);
            vcheck!(match (got, exp) { (Ok(g), Some(e)) => g == (a, e), _ => false }, "MARKET.create_returns_asset_and_per_asset_sequence_number");
            expect_len = m + 1;
        }
        1 => {
            assume_valid_incoming(&pa, bid, vol, price, cfg.discipline);
            let got = market.create_and_place_order(a, mk_side(bid), vol, trader, price);
            let exp = ref_create(&mut r, bid, vol, trader, price);
            ref_place(&mut r, m);
            vcheck!(match (got, exp) { (Ok(g), Some(e)) => g == (a, e), _ => false }, "MARKET.create_returns_asset_and_per_asset_sequence_number");
            expect_len = m + 1;
        }
        2 | 5 => {
            let o = *entry_order(&pa.e[id]);
            if o.status == Status::New {
                let px = if is_market(&o) { None } else { Some(o.price) };
                assume_valid_incoming(&pa, is_bid(o.side), o.vol, px, cfg.discipline);
            }
            if which == 2 {
                market.place_order((a, id));
            } else {
                market.process_event(Event::New { order_id: (a, id) });
            }
            ref_place(&mut r, id);
        }
        3 | 6 => {
            if which == 3 {
                market.cancel_order((a, id));
            } else {
                market.process_event(Event::Cancellation { order_id: (a, id) });
            }
            ref_cancel(&mut r, id);
        }
        _ => {
            // volume not above the current one (keeps the per-side volume bound trivially); the price is
            // omitted or restated: (None, Some v) reduces in place or re-queues at v == volume,
            // (Some current price, _) always re-queues
            assume(nv >= 1 && nv <= entry_order(&pa.e[id]).vol);
            // 8 / 9: the event with a CONCRETE option shape ((Some price, None) / (None, Some volume)) - tried in
            // order to keep `Event`'s niche-encoded discriminant concrete; the Modify event through the market
            // still needs ~20 GB and runs out of memory, so no harness is registered for 7, 8, 9.
            let np = match which {
                8 => Some(entry_order(&pa.e[id]).price),
                9 => None,
                _ => if any_bool() { Some(entry_order(&pa.e[id]).price) } else { None },
            };
            let nvo = match which {
                8 => None,
                9 => Some(nv),
                _ => if np.is_none() || any_bool() { Some(nv) } else { None },
            };
            if let Some(px) = np {
                assume(px > 0 && px < Price::MAX);
            }
            if which == 4 {
                market.modify_order((a, id), np, nvo);
            } else {
                market.process_event(Event::Modify { order_id: (a, id), new_price: np, new_vol: nvo });
            }
            ref_modify(&mut r, id, np, nvo);
        }
    }
    let ba = market.verif_book(a);
    let bo = market.verif_book(1 - a);
    vcheck!(ba.verif_n_orders() == expect_len, "MARKET.addressed_book_order_count");
    vcheck!(table_matches(ba, &r), "MARKET.addressed_book_equals_stand_alone_book");
    vcheck!(new_trades_match(ba, &r, cfg.ntrades) && old_trades_unchanged(ba, cfg.ntrades, &olda), "MARKET.addressed_book_trades_equal_stand_alone_book");
    vcheck!(index_equals_reload::<N, L>(ba), "INDEX.side_indexes_equal_rebuild_from_orders");
    vcheck!(snapshot_equal::<N, L>(bo, &po, cfg.ntrades, &oldo, false), "MARKET.other_asset_untouched");
    vcheck!(index_equals_reload::<N, L>(bo), "INDEX.other_asset_side_indexes_untouched");
    vcheck!(queries_in_asset_order(&market), "MARKET.all_asset_queries_in_asset_order");
    vcheck!(market.get_time() == p0.t, "MARKET.shared_clock");
    vcover!(which == 1 && active(&r.e[m]), "cover.placed_on_addressed_asset");
    vcover!(which == 5 && entry_order(&pa.e[id]).status == Status::New, "cover.new_event_routed");
    vcover!(which == 6 && active(&pa.e[id]), "cover.cancel_event_routed");
    vcover!(which >= 7 && active(&pa.e[id]), "cover.modify_event_routed");
    vcover!((which == 4 || which >= 7) && active(&pa.e[id]) && entry_key_time(&r.e[id]) != entry_key_time(&pa.e[id]), "cover.modify_requeued");
    core::mem::forget(market);
}

/// set_time / toggles / reset reach every asset and change nothing else; `Market::new` gives each
/// asset its own tick size and the shared clock / flag
pub fn step_market_admin<const N: usize, const L: usize>(m: usize, cfg: GenCfg) {
    let p0: Plain<N> = gen_plain::<N>(m, cfg);
    let mut p1: Plain<N> = gen_plain::<N>(m, cfg);
    p1.t = p0.t;
    p1.trading = p0.trading;
    let (b0, old0) = build_with_log::<N, L>(&p0, cfg.ntrades);
    let (b1, old1) = build_with_log::<N, L>(&p1, cfg.ntrades);
    let mut market: Market<2, L> = Market::verif_from_books([b0, b1]);
    let which = any_u8();
    assume(which < 4);
    let (mut e0, mut e1) = (p0, p1);
    match which {
        0 => {
            let t2 = any_u64();
            assume(t2 >= p0.t);
            market.set_time(t2);
            e0.t = t2;
            e1.t = t2;
            vcheck!(market.get_time() == t2, "MARKET.set_time_sets_shared_clock");
        }
        1 => {
            market.enable_trading();
            e0.trading = true;
            e1.trading = true;
        }
        2 => {
            market.disable_trading();
            e0.trading = false;
            e1.trading = false;
        }
        _ => {
            market.reset_trade_vols();
            e0.trade_vol = 0;
            e1.trade_vol = 0;
        }
    }
    vcheck!(snapshot_equal::<N, L>(market.verif_book(0), &e0, cfg.ntrades, &old0, false), "MARKET.admin_reaches_asset_0_and_changes_nothing_else");
    vcheck!(snapshot_equal::<N, L>(market.verif_book(1), &e1, cfg.ntrades, &old1, false), "MARKET.admin_reaches_asset_1_and_changes_nothing_else");
    vcheck!(queries_in_asset_order(&market), "MARKET.all_asset_queries_in_asset_order");
    vcover!(which == 3 && p1.trade_vol > 0, "cover.reset_reaches_asset_1");
    core::mem::forget(market);
    // construction: per-asset tick sizes, shared clock and flag, empty books
    let t = any_u64();
    let t0 = any_u32();
    let t1 = any_u32();
    assume(t0 >= 1 && t1 >= 1);
    let tr = any_bool();
    let fresh: Market<2, L> = Market::new(t, [t0, t1], tr);
    vcheck!(fresh.verif_book(0).verif_tick() == t0 && fresh.verif_book(1).verif_tick() == t1, "MARKET.new_gives_each_asset_its_own_tick_size");
    vcheck!(fresh.verif_book(0).get_time() == t && fresh.verif_book(1).get_time() == t && fresh.get_time() == t, "MARKET.new_shared_clock");
    vcheck!(fresh.verif_book(0).verif_trading() == tr && fresh.verif_book(1).verif_trading() == tr, "MARKET.new_shared_flag");
    let ba = fresh.bid_asks();
    vcheck!(ba[0] == (0, Price::MAX) && ba[1] == (0, Price::MAX) && fresh.verif_book(0).verif_n_orders() == 0 && fresh.verif_book(1).verif_n_orders() == 0, "MARKET.new_books_empty");
}

/// The Modify routing on a small concrete SHAPE with symbolic values (a formula that stays small
/// whatever the routing code does): two asks resting at one price on asset 1 of a market built through
/// the public API, then `process_event(Modify { first order, its own price restated, volume kept or
/// reduced })`.  A stand-alone book re-queues on ANY given price: the first order must now sit behind
/// the second, with the requested volume; asset 0 stays empty.
pub fn market_modify_routing_small(via_event: bool) {
    let t = any_u64();
    assume(t < (1u64 << 62));
    let mut market: Market<2, 2> = Market::new(t, [1, 1], false);
    let p = any_u32();
    assume(p > 0 && p < Price::MAX);
    let (v0, v1) = (any_u32(), any_u32());
    assume(v0 >= 1 && v1 >= 1 && (v0 as u64) + (v1 as u64) <= u32::MAX as u64);
    let tr = any_u32();
    let a = market.create_and_place_order(1, mk_side(false), v0, tr, Some(p));
    let b = market.create_and_place_order(1, mk_side(false), v1, tr, Some(p));
    vcheck!(matches!(a, Ok((1, 0))) && matches!(b, Ok((1, 1))), "MARKET.create_returns_asset_and_per_asset_sequence_number");
    let before = (market.verif_book(1).verif_key_time(0), market.verif_book(1).verif_key_time(1));
    vcheck!(before.0 < before.1, "REF.queue_order_equals_reference");
    // (through an event the volume is left out: rustc encodes `Event`'s own discriminant in the spare
    // values of one of its `Option` fields' tags, and a symbolic `Option` there makes "which kind of
    // event is this?" undecidable for the symbolic executor, which then explores every arm)
    let nv = if !via_event && any_bool() {
        let x = any_u32();
        assume(x >= 1 && x <= v0);
        Some(x)
    } else {
        None
    };
    if via_event {
        market.process_event(Event::Modify { order_id: (1, 0), new_price: Some(p), new_vol: nv });
    } else {
        market.modify_order((1, 0), Some(p), nv);
    }
    let book = market.verif_book(1);
    vcheck!(book.verif_key_time(0) > book.verif_key_time(1), "MARKET.restated_price_requeues_as_in_a_stand_alone_book");
    let o = market.order((1, 0));
    vcheck!(o.status == Status::Active && o.price == p && o.vol == nv.unwrap_or(v0), "MARKET.addressed_book_equals_stand_alone_book");
    vcheck!(market.verif_book(0).verif_n_orders() == 0 && market.verif_book(1).verif_n_orders() == 2, "MARKET.other_asset_untouched");
    let av = market.ask_vols();
    vcheck!(av[0] == 0 && av[1] == v1 + nv.unwrap_or(v0), "MARKET.all_asset_queries_in_asset_order");
    vcover!(nv.is_none(), "cover.price_only_restated");
    core::mem::forget(market);
}

/// save -> load of a whole market through the derived implementations (incl. the `serde_as` array
/// adapter) over the token tape: every asset's book comes back in its own slot, equal to the saved one
pub fn market_serde_roundtrip<const N: usize, const L: usize>(m: usize) {
    use crate::orderbook::verif_proofs::tape;
    use serde::{Deserialize, Serialize};
    let p0: Plain<N> = gen_plain::<N>(m, CFG);
    let mut p1: Plain<N> = gen_plain::<N>(m, GenCfg { tick: 3, ..CFG });
    p1.t = p0.t;
    p1.trading = p0.trading;
    let market: Market<2, L> = Market::verif_from_books([build::<N, L>(&p0, 0), build::<N, L>(&p1, 0)]);
    let mut t = tape::Tape::new();
    let saved = market.serialize(&mut tape::W(&mut t)).is_ok();
    vcheck!(saved && !t.overflow, "SNAPSHOT.saving_succeeds");
    let mut r = tape::R::new(&t);
    match Market::<2, L>::deserialize(&mut r) {
        Ok(m2) => {
            vcheck!(r.pos == t.n, "SNAPSHOT.whole_snapshot_consumed");
            let mut a = 0;
            while a < 2 {
                let (scal, same, sides) = books_equal::<N, L>(&m2.order_books[a], &market.order_books[a]);
                vcheck!(scal, "SNAPSHOT.time_tick_counter_flag_round_trip");
                vcheck!(same, "SNAPSHOT.order_records_and_queue_keys_round_trip");
                vcheck!(sides, "SNAPSHOT.side_indexes_of_the_loaded_book_equal_the_originals");
                a += 1;
            }
            vcover!(active(&p0.e[0]) && !active(&p1.e[0]), "cover.assets_differ");
            core::mem::forget(m2);
        }
        Err(_) => {
            vcheck!(false, "SNAPSHOT.loading_a_saved_snapshot_succeeds");
        }
    }
    core::mem::forget(market);
}

vharnesses! {
    #[cfg_attr(kani, kani::unwind(18))]
    fn c07_serde_market_roundtrip_m1() { market_serde_roundtrip::<2, 2>(1) }
    #[cfg_attr(kani, kani::unwind(4))]
    fn c14_market_create_asset0_off() { step_market_op::<3, 2, 0>(2, 0, GenCfg { ntrades: 1, ..OFF }, 2) }
    #[cfg_attr(kani, kani::unwind(4))]
    fn c14_market_create_asset1_off() { step_market_op::<3, 2, 0>(2, 1, GenCfg { ntrades: 1, ..OFF }, 2) }
    #[cfg_attr(kani, kani::unwind(4))]
    fn c14_market_create_place_asset0_off() { step_market_op::<3, 2, 1>(2, 0, GenCfg { ntrades: 1, ..OFF }, 2) }
    #[cfg_attr(kani, kani::unwind(4))]
    fn c14_market_create_place_asset1_off() { step_market_op::<3, 2, 1>(2, 1, GenCfg { ntrades: 1, ..OFF }, 2) }
    #[cfg_attr(kani, kani::unwind(4))]
    fn c14_market_place_asset0_off() { step_market_op::<3, 2, 2>(2, 0, GenCfg { ntrades: 1, ..OFF }, 2) }
    #[cfg_attr(kani, kani::unwind(4))]
    fn c14_market_place_asset1_off() { step_market_op::<3, 2, 2>(2, 1, GenCfg { ntrades: 1, ..OFF }, 2) }
    #[cfg_attr(kani, kani::unwind(4))]
    fn c14_market_cancel_asset0_off() { step_market_op::<3, 2, 3>(2, 0, GenCfg { ntrades: 1, ..OFF }, 2) }
    #[cfg_attr(kani, kani::unwind(4))]
    fn c14_market_cancel_asset1_off() { step_market_op::<3, 2, 3>(2, 1, GenCfg { ntrades: 1, ..OFF }, 2) }
    #[cfg_attr(kani, kani::unwind(4))]
    fn c14_market_modify_asset0_off() { step_market_op::<3, 2, 4>(2, 0, GenCfg { ntrades: 1, ..OFF }, 2) }
    #[cfg_attr(kani, kani::unwind(4))]
    fn c14_market_modify_asset1_off() { step_market_op::<3, 2, 4>(2, 1, GenCfg { ntrades: 1, ..OFF }, 2) }
    #[cfg_attr(kani, kani::unwind(4))]
    fn c14_market_event_new_asset0_off() { step_market_op::<3, 2, 5>(2, 0, GenCfg { ntrades: 1, ..OFF }, 2) }
    #[cfg_attr(kani, kani::unwind(4))]
    fn c14_market_event_new_asset1_off() { step_market_op::<3, 2, 5>(2, 1, GenCfg { ntrades: 1, ..OFF }, 2) }
    #[cfg_attr(kani, kani::unwind(4))]
    fn c14_market_event_cancel_asset0_off() { step_market_op::<3, 2, 6>(2, 0, GenCfg { ntrades: 1, ..OFF }, 2) }
    #[cfg_attr(kani, kani::unwind(4))]
    fn c14_market_event_cancel_asset1_off() { step_market_op::<3, 2, 6>(2, 1, GenCfg { ntrades: 1, ..OFF }, 2) }
    #[cfg_attr(kani, kani::unwind(4))]
    fn c14_market_event_modify_asset0_off() { step_market_op::<3, 2, 7>(2, 0, GenCfg { ntrades: 1, ..OFF }, 2) }
    #[cfg_attr(kani, kani::unwind(4))]
    fn c14_market_event_modify_asset1_off() { step_market_op::<3, 2, 7>(2, 1, GenCfg { ntrades: 1, ..OFF }, 2) }
    #[cfg_attr(kani, kani::unwind(4))]
    fn c14_market_modify_routing_small() { market_modify_routing_small(false) }
    #[cfg_attr(kani, kani::unwind(4))]
    fn c14_market_admin() { step_market_admin::<3, 2>(2, GenCfg { ntrades: 1, ..CFG }) }
}
