//! A token-tape data format for serde (no text): the DERIVED `Serialize` / `Deserialize`
//! implementations of the repository's types (with their `skip_serializing`, `try_from =
//! "OrderBookState"`, `serde_as` attributes and field names) are run against it, so that what a
//! snapshot stores and what loading reads back are decided without going through JSON text.
//!
//! Format: a struct is `Struct(n)` followed by n x (`Key(name)`, value); a sequence `Seq(n)` + n
//! values; a tuple `Tuple(n)` + n values; a unit variant `Variant(index)`; scalars by value.  Keys
//! are replayed by NAME (`visit_str`), so a renamed / dropped / added field is visible exactly as it
//! is to `serde_json`; unknown keys are skipped as `serde_json` skips them.
#![allow(dead_code)]
#![allow(clippy::all)]
use serde::de::{self, DeserializeSeed, EnumAccess, MapAccess, SeqAccess, VariantAccess, Visitor};
use serde::ser::{self, Impossible, Serialize};
use std::fmt;

#[derive(Clone, Copy, PartialEq, Eq)]
pub enum K {
    Bool,
    U32,
    U64,
    Seq,
    Tuple,
    Struct,
    Key,
    Variant,
    End,
}

#[derive(Clone, Copy)]
pub struct Tok {
    pub k: K,
    pub v: u64,
    pub s: &'static str,
}
pub const T0: Tok = Tok { k: K::End, v: 0, s: "" };
pub const CAP: usize = 160;

pub struct Tape {
    pub t: [Tok; CAP],
    pub n: usize,
    pub overflow: bool,
}
impl Tape {
    pub fn new() -> Self {
        Tape { t: [T0; CAP], n: 0, overflow: false }
    }
    fn push(&mut self, k: K, v: u64, s: &'static str) {
        if self.n < CAP {
            self.t[self.n] = Tok { k, v, s };
            self.n += 1;
        } else {
            self.overflow = true;
        }
    }
}

/// (deliberately larger than any record it travels next to: with a zero-sized error type rustc
/// encodes `Result<Order, TapeErr>`'s discriminant in the niche of the record's `Status` byte, and a
/// symbolic status then makes "is this an Err?" undecidable for the symbolic executor's simplifier -
/// a phantom error path whose early return leaves the reader's position path-dependent)
#[derive(Debug)]
pub struct TapeErr(pub [u64; 16]);
pub const TAPE_ERR: TapeErr = TapeErr([0; 16]);
impl fmt::Display for TapeErr {
    fn fmt(&self, _f: &mut fmt::Formatter) -> fmt::Result {
        Ok(())
    }
}
impl std::error::Error for TapeErr {}
impl ser::Error for TapeErr {
    fn custom<T: fmt::Display>(_msg: T) -> Self {
        TAPE_ERR
    }
}
impl de::Error for TapeErr {
    fn custom<T: fmt::Display>(_msg: T) -> Self {
        fail()
    }
}

/// Every error raised while LOADING (by the reader below or by the derived code: missing / duplicate
/// field, unknown variant, out-of-range number, failed conversion - all of which serde routes
/// through `Error::custom`) is reported where it arises and ends the path there.  Loading a tape the
/// serializer has just written must not fail, so this is the assertion itself; ending the path keeps
/// the reader's position path-independent (an early error return that is merged back would make it
/// symbolic, which no bounded symbolic execution of the remaining fields survives).
#[cfg(kani)]
pub fn fail() -> TapeErr {
    assert!(false, "SNAPSHOT.loading_a_saved_snapshot_succeeds");
    kani::assume(false);
    TAPE_ERR
}
#[cfg(not(kani))]
pub fn fail() -> TapeErr {
    crate::verif::src::record_check(false, "SNAPSHOT.loading_a_saved_snapshot_succeeds");
    TAPE_ERR
}

// ------------------------------------------------------------------------------------------
// serializer
// ------------------------------------------------------------------------------------------

pub struct W<'a>(pub &'a mut Tape);

impl<'a, 'b> ser::Serializer for &'b mut W<'a> {
    type Ok = ();
    type Error = TapeErr;
    type SerializeSeq = Self;
    type SerializeTuple = Self;
    type SerializeTupleStruct = Impossible<(), TapeErr>;
    type SerializeTupleVariant = Impossible<(), TapeErr>;
    type SerializeMap = Impossible<(), TapeErr>;
    type SerializeStruct = Self;
    type SerializeStructVariant = Impossible<(), TapeErr>;

    fn serialize_bool(self, v: bool) -> Result<(), TapeErr> {
        self.0.push(K::Bool, v as u64, "");
        Ok(())
    }
    fn serialize_i8(self, _v: i8) -> Result<(), TapeErr> {
        Err(TAPE_ERR)
    }
    fn serialize_i16(self, _v: i16) -> Result<(), TapeErr> {
        Err(TAPE_ERR)
    }
    fn serialize_i32(self, _v: i32) -> Result<(), TapeErr> {
        Err(TAPE_ERR)
    }
    fn serialize_i64(self, _v: i64) -> Result<(), TapeErr> {
        Err(TAPE_ERR)
    }
    fn serialize_u8(self, v: u8) -> Result<(), TapeErr> {
        self.0.push(K::U32, v as u64, "");
        Ok(())
    }
    fn serialize_u16(self, v: u16) -> Result<(), TapeErr> {
        self.0.push(K::U32, v as u64, "");
        Ok(())
    }
    fn serialize_u32(self, v: u32) -> Result<(), TapeErr> {
        self.0.push(K::U32, v as u64, "");
        Ok(())
    }
    fn serialize_u64(self, v: u64) -> Result<(), TapeErr> {
        self.0.push(K::U64, v, "");
        Ok(())
    }
    fn serialize_f32(self, _v: f32) -> Result<(), TapeErr> {
        Err(TAPE_ERR)
    }
    fn serialize_f64(self, _v: f64) -> Result<(), TapeErr> {
        Err(TAPE_ERR)
    }
    fn serialize_char(self, _v: char) -> Result<(), TapeErr> {
        Err(TAPE_ERR)
    }
    fn serialize_str(self, _v: &str) -> Result<(), TapeErr> {
        Err(TAPE_ERR)
    }
    fn serialize_bytes(self, _v: &[u8]) -> Result<(), TapeErr> {
        Err(TAPE_ERR)
    }
    fn serialize_none(self) -> Result<(), TapeErr> {
        Err(TAPE_ERR)
    }
    fn serialize_some<T: ?Sized + Serialize>(self, _value: &T) -> Result<(), TapeErr> {
        Err(TAPE_ERR)
    }
    fn serialize_unit(self) -> Result<(), TapeErr> {
        Err(TAPE_ERR)
    }
    fn serialize_unit_struct(self, _name: &'static str) -> Result<(), TapeErr> {
        Err(TAPE_ERR)
    }
    fn serialize_unit_variant(self, _name: &'static str, variant_index: u32, variant: &'static str) -> Result<(), TapeErr> {
        self.0.push(K::Variant, variant_index as u64, variant);
        Ok(())
    }
    fn serialize_newtype_struct<T: ?Sized + Serialize>(self, _name: &'static str, value: &T) -> Result<(), TapeErr> {
        value.serialize(self)
    }
    fn serialize_newtype_variant<T: ?Sized + Serialize>(self, _name: &'static str, _variant_index: u32, _variant: &'static str, _value: &T) -> Result<(), TapeErr> {
        Err(TAPE_ERR)
    }
    fn serialize_seq(self, len: Option<usize>) -> Result<Self::SerializeSeq, TapeErr> {
        match len {
            Some(n) => {
                self.0.push(K::Seq, n as u64, "");
                Ok(self)
            }
            None => Err(TAPE_ERR),
        }
    }
    fn serialize_tuple(self, len: usize) -> Result<Self::SerializeTuple, TapeErr> {
        self.0.push(K::Tuple, len as u64, "");
        Ok(self)
    }
    fn serialize_tuple_struct(self, _name: &'static str, _len: usize) -> Result<Self::SerializeTupleStruct, TapeErr> {
        Err(TAPE_ERR)
    }
    fn serialize_tuple_variant(self, _name: &'static str, _variant_index: u32, _variant: &'static str, _len: usize) -> Result<Self::SerializeTupleVariant, TapeErr> {
        Err(TAPE_ERR)
    }
    fn serialize_map(self, _len: Option<usize>) -> Result<Self::SerializeMap, TapeErr> {
        Err(TAPE_ERR)
    }
    fn serialize_struct(self, name: &'static str, len: usize) -> Result<Self::SerializeStruct, TapeErr> {
        self.0.push(K::Struct, len as u64, name);
        Ok(self)
    }
    fn serialize_struct_variant(self, _name: &'static str, _variant_index: u32, _variant: &'static str, _len: usize) -> Result<Self::SerializeStructVariant, TapeErr> {
        Err(TAPE_ERR)
    }
}

impl<'a, 'b> ser::SerializeSeq for &'b mut W<'a> {
    type Ok = ();
    type Error = TapeErr;
    fn serialize_element<T: ?Sized + Serialize>(&mut self, value: &T) -> Result<(), TapeErr> {
        value.serialize(&mut **self)
    }
    fn end(self) -> Result<(), TapeErr> {
        Ok(())
    }
}
impl<'a, 'b> ser::SerializeTuple for &'b mut W<'a> {
    type Ok = ();
    type Error = TapeErr;
    fn serialize_element<T: ?Sized + Serialize>(&mut self, value: &T) -> Result<(), TapeErr> {
        value.serialize(&mut **self)
    }
    fn end(self) -> Result<(), TapeErr> {
        Ok(())
    }
}
impl<'a, 'b> ser::SerializeStruct for &'b mut W<'a> {
    type Ok = ();
    type Error = TapeErr;
    fn serialize_field<T: ?Sized + Serialize>(&mut self, key: &'static str, value: &T) -> Result<(), TapeErr> {
        self.0.push(K::Key, 0, key);
        value.serialize(&mut **self)
    }
    fn end(self) -> Result<(), TapeErr> {
        Ok(())
    }
}

// ------------------------------------------------------------------------------------------
// deserializer
// ------------------------------------------------------------------------------------------

pub struct R<'a> {
    pub tape: &'a Tape,
    pub pos: usize,
}

impl<'a> R<'a> {
    pub fn new(tape: &'a Tape) -> Self {
        R { tape, pos: 0 }
    }
    pub fn next(&mut self) -> Tok {
        if self.pos < self.tape.n && self.pos < CAP {
            let t = self.tape.t[self.pos];
            self.pos += 1;
            t
        } else {
            T0
        }
    }
    pub fn peek(&self) -> Tok {
        if self.pos < self.tape.n && self.pos < CAP {
            self.tape.t[self.pos]
        } else {
            T0
        }
    }
    /// skip one complete value (what `serde_json` does with the value of an unknown key); bounded: at
    /// most SKIP_MAX tokens (a scalar, a tuple, a small record), anything bigger is an error
    fn skip_value(&mut self) -> Result<(), TapeErr> {
        let mut pending: u64 = 1;
        let mut steps = 0;
        while pending > 0 {
            if steps >= SKIP_MAX {
                return Err(fail());
            }
            steps += 1;
            let t = self.next();
            pending -= 1;
            match t.k {
                K::Bool | K::U32 | K::U64 | K::Variant => {}
                K::Seq | K::Tuple | K::Struct => pending += t.v,
                K::Key => pending += 1,
                K::End => return Err(fail()),
            }
        }
        Ok(())
    }
}
pub const SKIP_MAX: usize = 10;

struct Counted<'a, 'b> {
    r: &'b mut R<'a>,
    left: u64,
    /// the consumer asked once more after the last element and was told "no more"
    told_end: bool,
}

impl<'de, 'a, 'b> SeqAccess<'de> for Counted<'a, 'b> {
    type Error = TapeErr;
    fn next_element_seed<T: DeserializeSeed<'de>>(&mut self, seed: T) -> Result<Option<T::Value>, TapeErr> {
        if self.left == 0 {
            self.told_end = true;
            return Ok(None);
        }
        self.left -= 1;
        seed.deserialize(&mut *self.r).map(Some)
    }
    fn size_hint(&self) -> Option<usize> {
        Some(self.left as usize)
    }
}

impl<'de, 'a, 'b> MapAccess<'de> for Counted<'a, 'b> {
    type Error = TapeErr;
    fn next_key_seed<Kk: DeserializeSeed<'de>>(&mut self, seed: Kk) -> Result<Option<Kk::Value>, TapeErr> {
        if self.left == 0 {
            return Ok(None);
        }
        self.left -= 1;
        let t = self.r.next();
        if t.k != K::Key {
            return Err(fail());
        }
        seed.deserialize(Ident::Name(t.s)).map(Some)
    }
    fn next_value_seed<V: DeserializeSeed<'de>>(&mut self, seed: V) -> Result<V::Value, TapeErr> {
        seed.deserialize(&mut *self.r)
    }
}

/// a field name / variant index handed to the derived identifier visitors
enum Ident {
    Name(&'static str),
    Index(u64),
}

impl<'de> de::Deserializer<'de> for Ident {
    type Error = TapeErr;
    fn deserialize_any<V: Visitor<'de>>(self, visitor: V) -> Result<V::Value, TapeErr> {
        match self {
            Ident::Name(s) => visitor.visit_str(s),
            Ident::Index(i) => visitor.visit_u64(i),
        }
    }
    serde::forward_to_deserialize_any! {
        bool i8 i16 i32 i64 i128 u8 u16 u32 u64 u128 f32 f64 char str string bytes byte_buf option unit unit_struct
        newtype_struct seq tuple tuple_struct map struct enum identifier ignored_any
    }
}

struct VariantOnly<'a, 'b> {
    r: &'b mut R<'a>,
    /// number of variants the target enum declares
    nv: usize,
}
impl<'de, 'a, 'b> EnumAccess<'de> for VariantOnly<'a, 'b> {
    type Error = TapeErr;
    type Variant = Self;
    fn variant_seed<V: DeserializeSeed<'de>>(self, seed: V) -> Result<(V::Value, Self), TapeErr> {
        let t = self.r.next();
        if t.k != K::Variant {
            return Err(fail());
        }
        // the index on the tape is symbolic (it was computed from a symbolic enum value); it is handed to
        // the derived identifier visitor as a CONSTANT per branch, the last declared variant taking
        // whatever is left: the derived code then has no feasible "unknown variant" path whose early
        // return would leave the reader's position path-dependent (which no bounded symbolic execution
        // of the remaining fields survives).  Sound for tapes written by the serializer above, which
        // only writes indices the Serialize side declares.
        let nv = self.nv;
        let i = t.v;
        let v = if nv <= 1 || i == 0 {
            seed.deserialize(Ident::Index(0))
        } else if nv == 2 || i == 1 {
            seed.deserialize(Ident::Index(1))
        } else if nv == 3 || i == 2 {
            seed.deserialize(Ident::Index(2))
        } else if nv == 4 || i == 3 {
            seed.deserialize(Ident::Index(3))
        } else if nv == 5 || i == 4 {
            seed.deserialize(Ident::Index(4))
        } else if nv == 6 || i == 5 {
            seed.deserialize(Ident::Index(5))
        } else {
            seed.deserialize(Ident::Index(6))
        };
        match v {
            Ok(v) => Ok((v, self)),
            Err(e) => Err(e),
        }
    }
}
impl<'de, 'a, 'b> VariantAccess<'de> for VariantOnly<'a, 'b> {
    type Error = TapeErr;
    fn unit_variant(self) -> Result<(), TapeErr> {
        Ok(())
    }
    fn newtype_variant_seed<T: DeserializeSeed<'de>>(self, _seed: T) -> Result<T::Value, TapeErr> {
        Err(fail())
    }
    fn tuple_variant<V: Visitor<'de>>(self, _len: usize, _visitor: V) -> Result<V::Value, TapeErr> {
        Err(fail())
    }
    fn struct_variant<V: Visitor<'de>>(self, _fields: &'static [&'static str], _visitor: V) -> Result<V::Value, TapeErr> {
        Err(fail())
    }
}

impl<'de, 'a, 'b> de::Deserializer<'de> for &'b mut R<'a> {
    type Error = TapeErr;

    fn deserialize_any<V: Visitor<'de>>(self, visitor: V) -> Result<V::Value, TapeErr> {
        let t = self.peek();
        match t.k {
            K::Bool => self.deserialize_bool(visitor),
            K::U32 => self.deserialize_u32(visitor),
            K::U64 => self.deserialize_u64(visitor),
            K::Seq => self.deserialize_seq(visitor),
            K::Tuple => self.deserialize_tuple(t.v as usize, visitor),
            K::Struct => self.deserialize_struct("", &[], visitor),
            _ => Err(fail()),
        }
    }
    fn deserialize_bool<V: Visitor<'de>>(self, visitor: V) -> Result<V::Value, TapeErr> {
        let t = self.next();
        if t.k != K::Bool {
            return Err(fail());
        }
        visitor.visit_bool(t.v != 0)
    }
    fn deserialize_u8<V: Visitor<'de>>(self, visitor: V) -> Result<V::Value, TapeErr> {
        self.deserialize_u64(visitor)
    }
    fn deserialize_u16<V: Visitor<'de>>(self, visitor: V) -> Result<V::Value, TapeErr> {
        self.deserialize_u64(visitor)
    }
    fn deserialize_u32<V: Visitor<'de>>(self, visitor: V) -> Result<V::Value, TapeErr> {
        // a value saved from a 32-bit field is handed back as one (no narrowing branch per field)
        let t = self.next();
        match t.k {
            K::U32 => visitor.visit_u32(t.v as u32),
            K::U64 => visitor.visit_u64(t.v),
            _ => Err(fail()),
        }
    }
    fn deserialize_u64<V: Visitor<'de>>(self, visitor: V) -> Result<V::Value, TapeErr> {
        // numbers are untyped on the tape, as they are in JSON text: the visitor narrows them
        let t = self.next();
        if t.k != K::U32 && t.k != K::U64 {
            return Err(fail());
        }
        visitor.visit_u64(t.v)
    }
    fn deserialize_seq<V: Visitor<'de>>(self, visitor: V) -> Result<V::Value, TapeErr> {
        let t = self.next();
        if t.k != K::Seq && t.k != K::Tuple {
            return Err(fail());
        }
        let mut acc = Counted { r: self, left: t.v, told_end: false };
        let v = visitor.visit_seq(&mut acc)?;
        // a consumer of a variable-length sequence (Vec) stops only when told "no more".  (`Option<T>`
        // for a record T with a symbolic enum field is niche-encoded in that field: "is this None?" is
        // then undecidable for the symbolic executor's simplifier and a phantom "stopped early" path
        // appears; it ends here, on an assertion the solver shows unreachable.)
        if acc.left != 0 || !acc.told_end {
            return Err(fail());
        }
        Ok(v)
    }
    fn deserialize_tuple<V: Visitor<'de>>(self, len: usize, visitor: V) -> Result<V::Value, TapeErr> {
        let t = self.next();
        if (t.k != K::Seq && t.k != K::Tuple) || t.v as usize != len {
            return Err(fail());
        }
        let mut acc = Counted { r: self, left: t.v, told_end: false };
        let v = visitor.visit_seq(&mut acc)?;
        if acc.left != 0 {
            return Err(fail());
        }
        Ok(v)
    }
    fn deserialize_struct<V: Visitor<'de>>(self, _name: &'static str, _fields: &'static [&'static str], visitor: V) -> Result<V::Value, TapeErr> {
        let t = self.next();
        if t.k != K::Struct {
            return Err(fail());
        }
        let mut acc = Counted { r: self, left: t.v, told_end: false };
        let v = visitor.visit_map(&mut acc)?;
        if acc.left != 0 {
            return Err(fail());
        }
        Ok(v)
    }
    fn deserialize_enum<V: Visitor<'de>>(self, _name: &'static str, variants: &'static [&'static str], visitor: V) -> Result<V::Value, TapeErr> {
        visitor.visit_enum(VariantOnly { r: self, nv: variants.len() })
    }
    fn deserialize_ignored_any<V: Visitor<'de>>(self, visitor: V) -> Result<V::Value, TapeErr> {
        self.skip_value()?;
        visitor.visit_unit()
    }
    fn deserialize_newtype_struct<V: Visitor<'de>>(self, _name: &'static str, visitor: V) -> Result<V::Value, TapeErr> {
        visitor.visit_newtype_struct(self)
    }
    serde::forward_to_deserialize_any! {
        i8 i16 i32 i64 i128 u128 f32 f64 char str string bytes byte_buf option unit unit_struct tuple_struct map identifier
    }
}

