//! Hooked into `crates/step_sim/src/agents/random_agent.rs` (child module: builds the agent
//! directly).  C16 K3: one whole `RandomAgents::update` for one agent slot, with
//! `Env::place_order` / `Env::cancel_order` replaced by logging stand-ins.
#![allow(dead_code)]
#![allow(clippy::all)]
use super::*;
use crate::agents::noise_agent::verif_proofs::prob;
use crate::env::verif_proofs::{cancelled, placed};
use crate::verif::*;
use bourse_book::verif::book::*;
#[allow(unused_imports)]
use bourse_book::verif::src::*;
use bourse_book::{vcheck, vcover, vharnesses};

/// `rng.gen::<f32>()` as compiled (rand 0.8.5 `Standard`): 24 random bits scaled into [0, 1)
pub fn f32_of_word(w: u32) -> f32 {
    (w >> 8) as f32 * (1.0 / 16_777_216.0)
}

pub fn random_update<const T: u32>(rate_mode: u8, lo: u32, hi: u32, vlo: u32, vhi: u32) {
    // an environment over one arbitrary order (any status) that the slot may be holding
    let p: Plain<2> = gen_plain::<2>(1, GenCfg { tick: T, ..OFF });
    let book = build::<2, 10>(&p, 0);
    let mut env: Env = Env::verif_from_book(any_u64(), book);
    let holds = any_bool();
    // (ranges are concrete per harness: the index draw multiplies the word by the range, and a
    // symbolic x symbolic 64-bit product is beyond the SAT back end)
    let rate = prob(rate_mode);
    let mut agent = RandomAgents { orders: vec![if holds { Some(0) } else { None }], tick_range: (lo, hi), vol_range: (vlo, vhi), tick_size: T, activity_rate: rate };
    // generator words: activity draw, then (side, tick, volume) draws accepted at first attempt
    let mut rng = SymRng::new();
    let w_act = rng.push_u32();
    let w_side = rng.push_u32();
    let w_tick = rng.push_u32();
    let w_vol = rng.push_u32();
    assume(accepted_u32(w_side, 2) && accepted_u32(w_tick, hi - lo) && accepted_u32(w_vol, vhi - vlo));
    rng.strict = true;
    let was_active = holds && entry_order(&p.e[0]).status == Status::Active;

    agent.update(&mut env, &mut rng);

    let (plog, np) = placed();
    let (clog, nc) = cancelled();
    let acts = f32_of_word(w_act) < rate;
    match rate_mode {
        0 => vcheck!(!acts, "RANDOM.activity_rate_zero_never_acts"),
        1 => vcheck!(acts, "RANDOM.activity_rate_one_always_acts"),
        _ => {}
    }
    vcheck!(!rng.overdrawn, "RANDOM.draws_only_the_documented_words");
    if !acts {
        vcheck!(np == 0 && nc == 0 && agent.orders[0] == if holds { Some(0) } else { None } && rng.calls == 1, "RANDOM.inactive_agent_does_nothing");
    } else if was_active {
        vcheck!(np == 0 && nc == 1 && clog[0] == 0, "RANDOM.cancels_only_its_own_active_order");
        vcheck!(agent.orders[0].is_none(), "RANDOM.slot_cleared_after_cancel");
    } else {
        vcheck!(nc == 0 && np == 1, "RANDOM.places_exactly_one_order_when_it_holds_no_live_order");
        if np == 1 {
            let o = plog[0];
            let in_range = match o.price {
                Some(px) => px % T == 0 && px / T >= lo && px / T < hi,
                None => false,
            };
            vcheck!(in_range, "RANDOM.limit_price_is_tick_size_times_a_tick_inside_the_configured_range");
            vcheck!(o.vol >= vlo && o.vol < vhi, "RANDOM.volume_inside_the_configured_range");
            vcheck!(o.trader == 0, "RANDOM.trader_id_is_the_agent_index");
            vcheck!(agent.orders[0] == Some(0), "RANDOM.slot_holds_the_new_order_id");
        }
    }
    vcover!(acts && was_active, "cover.cancels");
    vcover!(acts && !was_active && np == 1 && plog[0].bid, "cover.places_a_bid");
    core::mem::forget(env);
    core::mem::forget(agent);
}

/// the multi-asset twin: one `RandomMarketAgents::update` for one slot on asset 1 of a two-asset
/// environment whose asset-1 book holds one arbitrary order (any status) the slot may be holding
pub fn random_market_update<const T: u32>(rate_mode: u8, lo: u32, hi: u32, vlo: u32, vhi: u32) {
    use crate::market_env::verif_proofs::mcancelled;
    let p0: Plain<2> = gen_plain::<2>(1, OFF);
    let mut p1: Plain<2> = gen_plain::<2>(1, GenCfg { tick: T, ..OFF });
    p1.t = p0.t;
    p1.trading = p0.trading;
    let market: bourse_book::Market<2, 2> = bourse_book::Market::verif_from_books([build::<2, 2>(&p0, 0), build::<2, 2>(&p1, 0)]);
    let mut env: MarketEnv<2, 2> = MarketEnv::verif_from_market(any_u64(), market);
    let holds = any_bool();
    let rate = prob(rate_mode);
    let mut agent = RandomMarketAgents { asset: 1, orders: vec![if holds { Some((1, 0)) } else { None }], tick_range: (lo, hi), vol_range: (vlo, vhi), tick_size: T, activity_rate: rate };
    let mut rng = SymRng::new();
    let w_act = rng.push_u32();
    let w_side = rng.push_u32();
    let w_tick = rng.push_u32();
    let w_vol = rng.push_u32();
    assume(accepted_u32(w_side, 2) && accepted_u32(w_tick, hi - lo) && accepted_u32(w_vol, vhi - vlo));
    rng.strict = true;
    let was_active = holds && entry_order(&p1.e[0]).status == Status::Active;

    agent.update(&mut env, &mut rng);

    let (plog, np) = placed();
    let (clog, nc) = mcancelled();
    let acts = f32_of_word(w_act) < rate;
    match rate_mode {
        0 => vcheck!(!acts, "RANDOM.activity_rate_zero_never_acts"),
        1 => vcheck!(acts, "RANDOM.activity_rate_one_always_acts"),
        _ => {}
    }
    vcheck!(!rng.overdrawn, "RANDOM.draws_only_the_documented_words");
    if !acts {
        vcheck!(np == 0 && nc == 0 && agent.orders[0] == if holds { Some((1, 0)) } else { None } && rng.calls == 1, "RANDOM.inactive_agent_does_nothing");
    } else if was_active {
        vcheck!(np == 0 && nc == 1 && clog[0] == (1, 0), "RANDOM.cancels_only_its_own_active_order");
        vcheck!(agent.orders[0].is_none(), "RANDOM.slot_cleared_after_cancel");
    } else {
        vcheck!(nc == 0 && np == 1, "RANDOM.places_exactly_one_order_when_it_holds_no_live_order");
        if np == 1 {
            let o = plog[0];
            let in_range = match o.price {
                Some(px) => px % T == 0 && px / T >= lo && px / T < hi,
                None => false,
            };
            vcheck!(o.asset == 1, "RANDOM.orders_go_to_the_agents_own_asset");
            vcheck!(in_range, "RANDOM.limit_price_is_tick_size_times_a_tick_inside_the_configured_range");
            vcheck!(o.vol >= vlo && o.vol < vhi, "RANDOM.volume_inside_the_configured_range");
            vcheck!(o.trader == 0, "RANDOM.trader_id_is_the_agent_index");
            vcheck!(agent.orders[0] == Some((1, 0)), "RANDOM.slot_holds_the_new_order_id");
        }
    }
    vcover!(acts && was_active, "cover.cancels");
    vcover!(acts && !was_active && np == 1 && plog[0].bid, "cover.places_a_bid");
    core::mem::forget(env);
    core::mem::forget(agent);
}

vharnesses! {
    #[cfg_attr(kani, kani::unwind(12))]
    #[cfg_attr(kani, kani::stub(crate::MarketEnv::place_order, crate::MarketEnv::verif_log_place_order))]
    #[cfg_attr(kani, kani::stub(crate::MarketEnv::cancel_order, crate::MarketEnv::verif_log_cancel_order))]
    fn c16_random_market_update_always_tick3() { random_market_update::<3>(1, 10, 37, 1, 1000) }
    #[cfg_attr(kani, kani::unwind(12))]
    #[cfg_attr(kani, kani::stub(crate::MarketEnv::place_order, crate::MarketEnv::verif_log_place_order))]
    #[cfg_attr(kani, kani::stub(crate::MarketEnv::cancel_order, crate::MarketEnv::verif_log_cancel_order))]
    fn c16_random_market_update_never_tick1() { random_market_update::<1>(0, 10, 20, 20, 30) }
    #[cfg_attr(kani, kani::unwind(12))]
    #[cfg_attr(kani, kani::stub(crate::MarketEnv::place_order, crate::MarketEnv::verif_log_place_order))]
    #[cfg_attr(kani, kani::stub(crate::MarketEnv::cancel_order, crate::MarketEnv::verif_log_cancel_order))]
    fn c16_random_market_update_interior_tick10() { random_market_update::<10>(2, 5, 6, 100, 101) }
    #[cfg_attr(kani, kani::unwind(12))]
    #[cfg_attr(kani, kani::stub(crate::Env::place_order, crate::Env::verif_log_place_order))]
    #[cfg_attr(kani, kani::stub(crate::Env::cancel_order, crate::Env::verif_log_cancel_order))]
    fn c16_random_update_always_tick3() { random_update::<3>(1, 10, 37, 1, 1000) }
    #[cfg_attr(kani, kani::unwind(12))]
    #[cfg_attr(kani, kani::stub(crate::Env::place_order, crate::Env::verif_log_place_order))]
    #[cfg_attr(kani, kani::stub(crate::Env::cancel_order, crate::Env::verif_log_cancel_order))]
    fn c16_random_update_never_tick1() { random_update::<1>(0, 10, 20, 20, 30) }
    #[cfg_attr(kani, kani::unwind(12))]
    #[cfg_attr(kani, kani::stub(crate::Env::place_order, crate::Env::verif_log_place_order))]
    #[cfg_attr(kani, kani::stub(crate::Env::cancel_order, crate::Env::verif_log_cancel_order))]
    fn c16_random_update_interior_tick10() { random_update::<10>(2, 5, 6, 100, 101) }
}
