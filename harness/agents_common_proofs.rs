// placeholder
