//! Hooked into `crates/step_sim/src/agents/common.rs`.
//!
//! C16 kernels: the four price kernels over ALL finite f64 inputs (bit-precise floats), ticks 1..=10,
//! and the cancel kernels over ALL generator words.
#![allow(dead_code)]
#![allow(clippy::all)]
use super::*;
use crate::verif::*;
use bourse_book::verif::book::*;
#[allow(unused_imports)]
use bourse_book::verif::src::*;
use bourse_book::{vcheck, vcover, vharnesses};

/// stands in for `LogNormal<f64>` in the generic kernels: hands back the value the harness drew
/// (any finite f64 >= 0: the log-normal's support; +inf needs |z| > 700 and is excluded)
#[derive(Clone, Copy)]
pub struct AnyDist(pub f64);
impl Distribution<f64> for AnyDist {
    fn sample<R: rand::Rng + ?Sized>(&self, _rng: &mut R) -> f64 {
        self.0
    }
}

/// a mid-price exactly as `OrderBook::mid_price` computes it from an uncrossed touch (sentinels
/// 0 / MAX for empty sides included); ask <= MAX - 10 unless the ask side is empty and the bid is
/// too (so that an on-grid price at or above the mid exists for every tick <= 10)
pub fn gen_mid() -> f64 {
    let bid = any_u32();
    let ask = any_u32();
    assume(bid <= ask);
    f64::from(bid) + 0.5 * f64::from(ask - bid)
}

pub fn fresh_env(tick: Price) -> Env {
    Env::new(any_u64(), tick, any_u64(), any_bool())
}

/// one call of a limit-price kernel at tick `T`
pub fn kernel_case<const T: u32>(sell: bool, market_env: bool) {
    let mid = gen_mid();
    let d = any_f64();
    assume(d.is_finite() && d >= 0.0);
    let vol = any_u32();
    let trader = any_u32();
    let mut rng = SymRng::new();
    let tick_f = f64::from(T);
    let (res_ok, side_ok, price, o_vol, o_trader, n, q) = if !market_env {
        let mut env = fresh_env(T);
        let r = if sell {
            place_sell_limit_order(&mut env, &mut rng, AnyDist(d), mid, tick_f, vol, trader)
        } else {
            place_buy_limit_order(&mut env, &mut rng, AnyDist(d), mid, tick_f, vol, trader)
        };
        match r {
            Ok(id) => {
                let o = env.order(id);
                (true, matches!(o.side, Side::Ask) == sell && id == 0 && o.status == Status::New, o.price, o.vol, o.trader_id, env.get_orderbook().verif_n_orders(), env.verif_queue_len())
            }
            Err(_) => (false, false, 0, 0, 0, env.get_orderbook().verif_n_orders(), env.verif_queue_len()),
        }
    } else {
        let mut env: MarketEnv<2, 2> = MarketEnv::new(any_u64(), [1, T], any_u64(), any_bool());
        let r = if sell {
            place_sell_limit_order_market(&mut env, &mut rng, AnyDist(d), mid, tick_f, vol, 1, trader)
        } else {
            place_buy_limit_order_market(&mut env, &mut rng, AnyDist(d), mid, tick_f, vol, 1, trader)
        };
        match r {
            Ok(id) => {
                let o = env.order(id);
                (true, matches!(o.side, Side::Ask) == sell && id == (1, 0) && o.status == Status::New, o.price, o.vol, o.trader_id, env.get_market().get_order_book(1).verif_n_orders(), env.verif_queue_len())
            }
            Err(_) => (false, false, 0, 0, 0, env.get_market().get_order_book(1).verif_n_orders(), env.verif_queue_len()),
        }
    };
    vcheck!(res_ok, "AGENT.limit_kernel_never_fails_on_a_consistent_tick");
    if res_ok {
        vcheck!(side_ok && n == 1 && q == 1, "AGENT.limit_kernel_submits_one_new_order_on_its_side");
        vcheck!(price % T == 0, "AGENT.limit_kernel_price_on_tick_grid");
        vcheck!(o_vol == vol && o_trader == trader, "AGENT.limit_kernel_volume_and_trader_as_configured");
        // quoting: buys at or below, sells at or above the observed mid (while such a grid price exists)
        if sell {
            if mid <= f64::from(Price::MAX - 10) {
                vcheck!(f64::from(price) >= mid, "AGENT.sell_quoted_at_or_above_mid");
            }
        } else {
            vcheck!(f64::from(price) <= mid, "AGENT.buy_quoted_at_or_below_mid");
        }
    }
    vcheck!(rng.calls == 0, "AGENT.limit_kernel_randomness_only_through_the_distribution");
}

pub fn kernel_all_ticks(sell: bool, market_env: bool) {
    kernel_case::<1>(sell, market_env);
    kernel_case::<2>(sell, market_env);
    kernel_case::<3>(sell, market_env);
    kernel_case::<4>(sell, market_env);
    kernel_case::<5>(sell, market_env);
    kernel_case::<6>(sell, market_env);
    kernel_case::<7>(sell, market_env);
    kernel_case::<8>(sell, market_env);
    kernel_case::<9>(sell, market_env);
    kernel_case::<10>(sell, market_env);
}

/// `rng.gen::<f32>()` as compiled (rand 0.8.5 `Standard`): 24 random bits scaled into [0, 1)
pub fn f32_of_word(w: u32) -> f32 {
    (w >> 8) as f32 * (1.0 / 16_777_216.0)
}

/// `cancel_live_orders` on an environment over an arbitrary two-entry table with both ids tracked
/// (duplicates excluded), arbitrary `p_cancel`, all generator words
pub fn cancel_kernel(p_mode: u8) {
    let p: Plain<3> = gen_plain::<3>(2, OFF);
    let book = build::<3, 10>(&p, 0);
    let mut env: Env = Env::verif_from_book(any_u64(), book);
    let mut rng = SymRng::new();
    let w0 = rng.push_u32();
    let w1 = rng.push_u32();
    rng.strict = true;
    let p_cancel: f32 = match p_mode {
        0 => 0.0,
        1 => {
            let x = any_f32();
            assume(x >= 1.0);
            x
        }
        _ => {
            let x = any_f32();
            assume(x > 0.0 && x < 1.0);
            x
        }
    };
    let tracked = [0usize, 1usize];
    let a0 = entry_order(&p.e[0]).status == Status::Active;
    let a1 = entry_order(&p.e[1]).status == Status::Active;
    let kept = cancel_live_orders(&mut env, &mut rng, &tracked, p_cancel);
    // the k-th live order consumes the k-th word
    let nlive = a0 as usize + a1 as usize;
    vcheck!(rng.calls == nlive && !rng.overdrawn, "AGENT.cancel_draws_one_word_per_live_order");
    let d0 = f32_of_word(w0);
    let d1 = f32_of_word(if a0 { w1 } else { w0 });
    // which tracked orders were sent a cancellation
    let q = env.verif_queue_len();
    let mut x0 = false;
    let mut x1 = false;
    let mut only_cancels = true;
    let mut i = 0;
    while i < 2 {
        if i < q {
            let (kind, id, _, _) = env.verif_queued(i);
            only_cancels &= kind == 1 && id < 2;
            x0 |= id == 0;
            x1 |= id == 1;
        }
        i += 1;
    }
    let ncancel = x0 as usize + x1 as usize;
    vcheck!(q == ncancel && only_cancels, "AGENT.cancel_queues_one_cancellation_per_selected_order_and_nothing_else");
    vcheck!((!x0 || a0) && (!x1 || a1), "AGENT.cancels_only_own_orders_that_were_active");
    // a live order is cancelled if its draw is below p and only if it is not above p
    vcheck!((!x0 || d0 <= p_cancel) && (!x1 || d1 <= p_cancel), "AGENT.cancelled_only_if_draw_not_above_probability");
    vcheck!((!(a0 && d0 < p_cancel) || x0) && (!(a1 && d1 < p_cancel) || x1), "AGENT.cancelled_whenever_draw_below_probability");
    vcheck!(kept.len() == nlive - ncancel, "AGENT.cancel_returns_exactly_the_surviving_live_orders");
    let mut ok = true;
    let mut i = 0;
    while i < kept.len() {
        let id = kept[i];
        ok &= (id == 0 && a0 && !x0) || (id == 1 && a1 && !x1);
        i += 1;
    }
    vcheck!(ok, "AGENT.cancel_keeps_only_tracked_active_orders");
    match p_mode {
        0 => vcheck!(ncancel == 0, "AGENT.probability_zero_never_cancels"),
        1 => vcheck!(ncancel == nlive, "AGENT.probability_one_always_cancels"),
        _ => {}
    }
    vcover!(nlive == 2, "cover.two_live_orders");
    core::mem::forget(env);
}

vharnesses! {
    #[cfg_attr(kani, kani::unwind(12))]
    fn c16_sell_limit_kernel_tick1() { kernel_case::<1>(true, false) }
    #[cfg_attr(kani, kani::unwind(12))]
    fn c16_buy_limit_kernel_tick1() { kernel_case::<1>(false, false) }
    #[cfg_attr(kani, kani::unwind(12))]
    fn c16_sell_limit_kernel_market_tick1() { kernel_case::<1>(true, true) }
    #[cfg_attr(kani, kani::unwind(12))]
    fn c16_buy_limit_kernel_market_tick1() { kernel_case::<1>(false, true) }
    #[cfg_attr(kani, kani::unwind(12))]
    fn c16_sell_limit_kernel_tick2() { kernel_case::<2>(true, false) }
    #[cfg_attr(kani, kani::unwind(12))]
    fn c16_buy_limit_kernel_tick2() { kernel_case::<2>(false, false) }
    #[cfg_attr(kani, kani::unwind(12))]
    fn c16_sell_limit_kernel_market_tick2() { kernel_case::<2>(true, true) }
    #[cfg_attr(kani, kani::unwind(12))]
    fn c16_buy_limit_kernel_market_tick2() { kernel_case::<2>(false, true) }
    #[cfg_attr(kani, kani::unwind(12))]
    fn c16_sell_limit_kernel_tick3() { kernel_case::<3>(true, false) }
    #[cfg_attr(kani, kani::unwind(12))]
    fn c16_buy_limit_kernel_tick3() { kernel_case::<3>(false, false) }
    #[cfg_attr(kani, kani::unwind(12))]
    fn c16_sell_limit_kernel_market_tick3() { kernel_case::<3>(true, true) }
    #[cfg_attr(kani, kani::unwind(12))]
    fn c16_buy_limit_kernel_market_tick3() { kernel_case::<3>(false, true) }
    #[cfg_attr(kani, kani::unwind(12))]
    fn c16_sell_limit_kernel_tick4() { kernel_case::<4>(true, false) }
    #[cfg_attr(kani, kani::unwind(12))]
    fn c16_buy_limit_kernel_tick4() { kernel_case::<4>(false, false) }
    #[cfg_attr(kani, kani::unwind(12))]
    fn c16_sell_limit_kernel_market_tick4() { kernel_case::<4>(true, true) }
    #[cfg_attr(kani, kani::unwind(12))]
    fn c16_buy_limit_kernel_market_tick4() { kernel_case::<4>(false, true) }
    #[cfg_attr(kani, kani::unwind(12))]
    fn c16_sell_limit_kernel_tick5() { kernel_case::<5>(true, false) }
    #[cfg_attr(kani, kani::unwind(12))]
    fn c16_buy_limit_kernel_tick5() { kernel_case::<5>(false, false) }
    #[cfg_attr(kani, kani::unwind(12))]
    fn c16_sell_limit_kernel_market_tick5() { kernel_case::<5>(true, true) }
    #[cfg_attr(kani, kani::unwind(12))]
    fn c16_buy_limit_kernel_market_tick5() { kernel_case::<5>(false, true) }
    #[cfg_attr(kani, kani::unwind(12))]
    fn c16_sell_limit_kernel_tick6() { kernel_case::<6>(true, false) }
    #[cfg_attr(kani, kani::unwind(12))]
    fn c16_buy_limit_kernel_tick6() { kernel_case::<6>(false, false) }
    #[cfg_attr(kani, kani::unwind(12))]
    fn c16_sell_limit_kernel_market_tick6() { kernel_case::<6>(true, true) }
    #[cfg_attr(kani, kani::unwind(12))]
    fn c16_buy_limit_kernel_market_tick6() { kernel_case::<6>(false, true) }
    #[cfg_attr(kani, kani::unwind(12))]
    fn c16_sell_limit_kernel_tick7() { kernel_case::<7>(true, false) }
    #[cfg_attr(kani, kani::unwind(12))]
    fn c16_buy_limit_kernel_tick7() { kernel_case::<7>(false, false) }
    #[cfg_attr(kani, kani::unwind(12))]
    fn c16_sell_limit_kernel_market_tick7() { kernel_case::<7>(true, true) }
    #[cfg_attr(kani, kani::unwind(12))]
    fn c16_buy_limit_kernel_market_tick7() { kernel_case::<7>(false, true) }
    #[cfg_attr(kani, kani::unwind(12))]
    fn c16_sell_limit_kernel_tick8() { kernel_case::<8>(true, false) }
    #[cfg_attr(kani, kani::unwind(12))]
    fn c16_buy_limit_kernel_tick8() { kernel_case::<8>(false, false) }
    #[cfg_attr(kani, kani::unwind(12))]
    fn c16_sell_limit_kernel_market_tick8() { kernel_case::<8>(true, true) }
    #[cfg_attr(kani, kani::unwind(12))]
    fn c16_buy_limit_kernel_market_tick8() { kernel_case::<8>(false, true) }
    #[cfg_attr(kani, kani::unwind(12))]
    fn c16_sell_limit_kernel_tick9() { kernel_case::<9>(true, false) }
    #[cfg_attr(kani, kani::unwind(12))]
    fn c16_buy_limit_kernel_tick9() { kernel_case::<9>(false, false) }
    #[cfg_attr(kani, kani::unwind(12))]
    fn c16_sell_limit_kernel_market_tick9() { kernel_case::<9>(true, true) }
    #[cfg_attr(kani, kani::unwind(12))]
    fn c16_buy_limit_kernel_market_tick9() { kernel_case::<9>(false, true) }
    #[cfg_attr(kani, kani::unwind(12))]
    fn c16_sell_limit_kernel_tick10() { kernel_case::<10>(true, false) }
    #[cfg_attr(kani, kani::unwind(12))]
    fn c16_buy_limit_kernel_tick10() { kernel_case::<10>(false, false) }
    #[cfg_attr(kani, kani::unwind(12))]
    fn c16_sell_limit_kernel_market_tick10() { kernel_case::<10>(true, true) }
    #[cfg_attr(kani, kani::unwind(12))]
    fn c16_buy_limit_kernel_market_tick10() { kernel_case::<10>(false, true) }
    #[cfg_attr(kani, kani::unwind(12))]
    fn c16_cancel_kernel_p_zero() { cancel_kernel(0) }
    #[cfg_attr(kani, kani::unwind(12))]
    fn c16_cancel_kernel_p_one() { cancel_kernel(1) }
    #[cfg_attr(kani, kani::unwind(12))]
    fn c16_cancel_kernel_p_interior() { cancel_kernel(2) }
}
