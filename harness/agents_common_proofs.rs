#![allow(dead_code)]
#[cfg(not(kani))]
pub fn lookup(_name: &str) -> Option<fn()> {
    None
}
