//! Hooked into `crates/step_sim/src/agents/noise_agent.rs` (child module: builds the agent
//! directly).  C16 K4: one whole `NoiseAgent::update` with the price / cancel kernels and
//! `Env::place_order` replaced by stand-ins (the kernels are decided by the K1 / K2 harnesses).
#![allow(dead_code)]
#![allow(clippy::all)]
use super::*;
use crate::agents::momentum_agent::verif_proofs::{stub_buy, stub_cancel, stub_sell};
use crate::env::verif_proofs::placed;
use crate::verif::*;
#[allow(unused_imports)]
use bourse_book::verif::src::*;
use bourse_book::{vcheck, vcover, vharnesses};

/// probability classes of the property: 0 (never), >= 1 (always), strictly inside (either)
pub fn prob(mode: u8) -> f32 {
    match mode {
        0 => 0.0,
        1 => {
            let x = any_f32();
            assume(x >= 1.0);
            x
        }
        _ => {
            let x = any_f32();
            assume(x > 0.0 && x < 1.0);
            x
        }
    }
}

pub fn noise_update(n: usize, limit_mode: u8, market_mode: u8) {
    let tick: Price = 1;
    let mut env: Env = Env::new(any_u64(), tick, any_u64(), any_bool());
    let vol = any_u32();
    assume(vol >= 1);
    let p_limit = prob(limit_mode);
    let p_market = prob(market_mode);
    let mut agent = NoiseAgent {
        tick_size: tick.into(),
        price_dist: LogNormal::<f64>::new(0.0, 1.0).unwrap(),
        orders: Vec::new(),
        trader_ids: if n == 1 { vec![7] } else { vec![7, 8] },
        params: NoiseAgentParams { tick_size: tick, p_limit, p_market, p_cancel: 0.0, trade_vol: vol, price_dist_mu: 0.0, price_dist_sigma: 1.0 },
    };
    let mut rng = SymRng::new();
    agent.update(&mut env, &mut rng);
    let (log, n_new) = placed();
    let mut n_limit = [0usize; 2];
    let mut n_market = [0usize; 2];
    let mut fields_ok = true;
    let mut k = 0;
    while k < 4 {
        if k < n_new {
            let o = log[k];
            fields_ok &= o.vol == vol && (o.trader == 7 || (n == 2 && o.trader == 8));
            let who = if o.trader == 7 { 0 } else { 1 };
            if o.price.is_none() {
                n_market[who] += 1;
            } else {
                n_limit[who] += 1;
            }
        }
        k += 1;
    }
    vcheck!(n_new <= 2 * n, "NOISE.at_most_one_limit_and_one_market_order_per_trader");
    vcheck!(fields_ok, "NOISE.configured_volume_and_own_trader_ids");
    vcheck!(n_limit[0] <= 1 && n_limit[1] <= 1 && n_market[0] <= 1 && n_market[1] <= 1, "NOISE.one_decision_of_each_kind_per_trader");
    let tl = n_limit[0] + n_limit[1];
    let tm = n_market[0] + n_market[1];
    match limit_mode {
        0 => vcheck!(tl == 0, "NOISE.limit_probability_zero_never_places"),
        1 => vcheck!(tl == n, "NOISE.limit_probability_one_always_places_once_per_trader"),
        _ => {}
    }
    match market_mode {
        0 => vcheck!(tm == 0, "NOISE.market_probability_zero_never_places"),
        1 => vcheck!(tm == n, "NOISE.market_probability_one_always_places_once_per_trader"),
        _ => {}
    }
    // the tracked list is exactly the limit orders placed in this call (the cancel stand-in kept none)
    vcheck!(agent.orders.len() == tl, "NOISE.tracks_exactly_its_new_limit_orders");
    vcover!(n_new == 2 * n, "cover.every_trader_placed_both");
    vcover!(n_new == 0, "cover.nobody_acted");
    core::mem::forget(env);
    core::mem::forget(agent);
}

/// the multi-asset twin: one `NoiseMarketAgent::update` (agent on asset 1 of a two-asset environment)
pub fn noise_market_update(n: usize, limit_mode: u8, market_mode: u8) {
    use crate::agents::momentum_agent::verif_proofs::{stub_buy_m, stub_cancel_m, stub_sell_m};
    let _ = (stub_buy_m::<SymRng, LogNormal<f64>, 2, 2>, stub_sell_m::<SymRng, LogNormal<f64>, 2, 2>, stub_cancel_m::<SymRng, 2, 2>);
    let tick: Price = 1;
    let mut env: MarketEnv<2, 2> = MarketEnv::new(any_u64(), [1, tick], any_u64(), any_bool());
    let vol = any_u32();
    assume(vol >= 1);
    let p_limit = prob(limit_mode);
    let p_market = prob(market_mode);
    let mut agent = NoiseMarketAgent {
        asset: 1,
        tick_size: tick.into(),
        price_dist: LogNormal::<f64>::new(0.0, 1.0).unwrap(),
        orders: Vec::new(),
        trader_ids: if n == 1 { vec![7] } else { vec![7, 8] },
        params: NoiseAgentParams { tick_size: tick, p_limit, p_market, p_cancel: 0.0, trade_vol: vol, price_dist_mu: 0.0, price_dist_sigma: 1.0 },
    };
    let mut rng = SymRng::new();
    agent.update(&mut env, &mut rng);
    let (log, n_new) = placed();
    let mut n_limit = [0usize; 2];
    let mut n_market = [0usize; 2];
    let mut fields_ok = true;
    let mut k = 0;
    while k < 4 {
        if k < n_new {
            let o = log[k];
            fields_ok &= o.asset == 1 && o.vol == vol && (o.trader == 7 || (n == 2 && o.trader == 8));
            let who = if o.trader == 7 { 0 } else { 1 };
            if o.price.is_none() {
                n_market[who] += 1;
            } else {
                n_limit[who] += 1;
            }
        }
        k += 1;
    }
    vcheck!(n_new <= 2 * n, "NOISE.at_most_one_limit_and_one_market_order_per_trader");
    vcheck!(fields_ok, "NOISE.own_asset_configured_volume_and_own_trader_ids");
    vcheck!(n_limit[0] <= 1 && n_limit[1] <= 1 && n_market[0] <= 1 && n_market[1] <= 1, "NOISE.one_decision_of_each_kind_per_trader");
    let tl = n_limit[0] + n_limit[1];
    let tm = n_market[0] + n_market[1];
    match limit_mode {
        0 => vcheck!(tl == 0, "NOISE.limit_probability_zero_never_places"),
        1 => vcheck!(tl == n, "NOISE.limit_probability_one_always_places_once_per_trader"),
        _ => {}
    }
    match market_mode {
        0 => vcheck!(tm == 0, "NOISE.market_probability_zero_never_places"),
        1 => vcheck!(tm == n, "NOISE.market_probability_one_always_places_once_per_trader"),
        _ => {}
    }
    vcheck!(agent.orders.len() == tl, "NOISE.tracks_exactly_its_new_limit_orders");
    vcover!(n_new == 2 * n, "cover.every_trader_placed_both");
    vcover!(n_new == 0, "cover.nobody_acted");
    core::mem::forget(env);
    core::mem::forget(agent);
}

vharnesses! {
    #[cfg_attr(kani, kani::unwind(12))]
    #[cfg_attr(kani, kani::stub(crate::agents::common::place_buy_limit_order_market, crate::agents::momentum_agent::verif_proofs::stub_buy_m))]
    #[cfg_attr(kani, kani::stub(crate::agents::common::place_sell_limit_order_market, crate::agents::momentum_agent::verif_proofs::stub_sell_m))]
    #[cfg_attr(kani, kani::stub(crate::agents::common::cancel_live_orders_market, crate::agents::momentum_agent::verif_proofs::stub_cancel_m))]
    #[cfg_attr(kani, kani::stub(crate::MarketEnv::place_order, crate::MarketEnv::verif_log_place_order))]
    fn c16_noise_market_update_n2_always() { noise_market_update(2, 1, 1) }
    #[cfg_attr(kani, kani::unwind(12))]
    #[cfg_attr(kani, kani::stub(crate::agents::common::place_buy_limit_order_market, crate::agents::momentum_agent::verif_proofs::stub_buy_m))]
    #[cfg_attr(kani, kani::stub(crate::agents::common::place_sell_limit_order_market, crate::agents::momentum_agent::verif_proofs::stub_sell_m))]
    #[cfg_attr(kani, kani::stub(crate::agents::common::cancel_live_orders_market, crate::agents::momentum_agent::verif_proofs::stub_cancel_m))]
    #[cfg_attr(kani, kani::stub(crate::MarketEnv::place_order, crate::MarketEnv::verif_log_place_order))]
    fn c16_noise_market_update_n2_never() { noise_market_update(2, 0, 0) }
    #[cfg_attr(kani, kani::unwind(12))]
    #[cfg_attr(kani, kani::stub(crate::agents::common::place_buy_limit_order_market, crate::agents::momentum_agent::verif_proofs::stub_buy_m))]
    #[cfg_attr(kani, kani::stub(crate::agents::common::place_sell_limit_order_market, crate::agents::momentum_agent::verif_proofs::stub_sell_m))]
    #[cfg_attr(kani, kani::stub(crate::agents::common::cancel_live_orders_market, crate::agents::momentum_agent::verif_proofs::stub_cancel_m))]
    #[cfg_attr(kani, kani::stub(crate::MarketEnv::place_order, crate::MarketEnv::verif_log_place_order))]
    fn c16_noise_market_update_n2_market_only() { noise_market_update(2, 0, 1) }
    #[cfg_attr(kani, kani::unwind(12))]
    #[cfg_attr(kani, kani::stub(crate::agents::common::place_buy_limit_order_market, crate::agents::momentum_agent::verif_proofs::stub_buy_m))]
    #[cfg_attr(kani, kani::stub(crate::agents::common::place_sell_limit_order_market, crate::agents::momentum_agent::verif_proofs::stub_sell_m))]
    #[cfg_attr(kani, kani::stub(crate::agents::common::cancel_live_orders_market, crate::agents::momentum_agent::verif_proofs::stub_cancel_m))]
    #[cfg_attr(kani, kani::stub(crate::MarketEnv::place_order, crate::MarketEnv::verif_log_place_order))]
    fn c16_noise_market_update_n2_interior() { noise_market_update(2, 2, 2) }
    #[cfg_attr(kani, kani::unwind(12))]
    #[cfg_attr(kani, kani::stub(crate::agents::common::place_buy_limit_order, stub_buy))]
    #[cfg_attr(kani, kani::stub(crate::agents::common::place_sell_limit_order, stub_sell))]
    #[cfg_attr(kani, kani::stub(crate::agents::common::cancel_live_orders, stub_cancel))]
    #[cfg_attr(kani, kani::stub(crate::Env::place_order, crate::Env::verif_log_place_order))]
    fn c16_noise_update_n2_always() { noise_update(2, 1, 1) }
    #[cfg_attr(kani, kani::unwind(12))]
    #[cfg_attr(kani, kani::stub(crate::agents::common::place_buy_limit_order, stub_buy))]
    #[cfg_attr(kani, kani::stub(crate::agents::common::place_sell_limit_order, stub_sell))]
    #[cfg_attr(kani, kani::stub(crate::agents::common::cancel_live_orders, stub_cancel))]
    #[cfg_attr(kani, kani::stub(crate::Env::place_order, crate::Env::verif_log_place_order))]
    fn c16_noise_update_n2_never() { noise_update(2, 0, 0) }
    #[cfg_attr(kani, kani::unwind(12))]
    #[cfg_attr(kani, kani::stub(crate::agents::common::place_buy_limit_order, stub_buy))]
    #[cfg_attr(kani, kani::stub(crate::agents::common::place_sell_limit_order, stub_sell))]
    #[cfg_attr(kani, kani::stub(crate::agents::common::cancel_live_orders, stub_cancel))]
    #[cfg_attr(kani, kani::stub(crate::Env::place_order, crate::Env::verif_log_place_order))]
    fn c16_noise_update_n2_limit_only() { noise_update(2, 1, 0) }
    #[cfg_attr(kani, kani::unwind(12))]
    #[cfg_attr(kani, kani::stub(crate::agents::common::place_buy_limit_order, stub_buy))]
    #[cfg_attr(kani, kani::stub(crate::agents::common::place_sell_limit_order, stub_sell))]
    #[cfg_attr(kani, kani::stub(crate::agents::common::cancel_live_orders, stub_cancel))]
    #[cfg_attr(kani, kani::stub(crate::Env::place_order, crate::Env::verif_log_place_order))]
    fn c16_noise_update_n2_interior() { noise_update(2, 2, 2) }
}
