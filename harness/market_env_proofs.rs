//! Hooked into `crates/step_sim/src/market_env.rs` (child module: sees `MarketEnv`'s private fields).
#![allow(dead_code)]
#![allow(clippy::all)]
use super::*;
use crate::verif::*;
use bourse_book::verif::book::*;
#[allow(unused_imports)]
use bourse_book::verif::src::*;
use bourse_book::{vcheck, vcover, vharnesses};

impl<const A: usize, const L: usize> MarketEnv<A, L> {
    /// assemble an environment around a given market (harness constructor)
    pub fn verif_from_market(step_size: Nanos, market: Market<A, L>) -> Self {
        // (constructor plus field assignments rather than a struct literal: see `Env::verif_from_book`)
        let level_2_data = market.level_2_data();
        let mut env = Self::new(0, [1; A], step_size, true);
        // (no drop glue for the placeholder market: it costs the solver gigabytes)
        core::mem::forget(core::mem::replace(&mut env.market, market));
        core::mem::forget(core::mem::replace(&mut env.level_2_data, level_2_data));
        env
    }
    pub fn verif_queue_len(&self) -> usize {
        self.transactions.len()
    }
    pub fn verif_queued(&self, i: usize) -> (u8, MarketOrderId, Option<Price>, Option<Vol>) {
        match &self.transactions[i] {
            Event::New { order_id } => (0, *order_id, None, None),
            Event::Cancellation { order_id } => (1, *order_id, None, None),
            Event::Modify { order_id, new_price, new_vol } => (2, *order_id, *new_price, *new_vol),
        }
    }
}

use crate::env::verif_proofs::{any_l2, gen_ev, l2_equal, Ev, EV_ANY};
use rand::seq::SliceRandom;

/// `MarketEnv::<2, L>::step` with `Market::process_event` replaced by the logging stand-in: the
/// multi-asset step LOOP in isolation.  Fully symbolic batch (assets, kinds, ids, arguments) and
/// generator words, two arbitrary books sharing the clock.
pub fn market_step_loop<const N: usize, const L: usize, const NB: usize>(m: usize, k: usize) {
    let cfg = LOG1;
    let p0: Plain<N> = gen_plain::<N>(m, cfg);
    let mut p1: Plain<N> = gen_plain::<N>(m, cfg);
    p1.t = p0.t;
    p1.trading = p0.trading;
    assume(p0.t < (1u64 << 62));
    let step_size = any_u64();
    assume(step_size >= NB as u64 && step_size < (1u64 << 62));
    let mut evs = [Ev { kind: 1, id: 0, np: None, nv: None }; NB];
    let mut assets = [0usize; NB];
    let mut i = 0;
    while i < NB {
        evs[i] = gen_ev(m, 1, EV_ANY);
        assets[i] = if any_bool() { 1 } else { 0 };
        i += 1;
    }
    let (b0, old0) = build_with_log::<N, L>(&p0, cfg.ntrades);
    let (b1, old1) = build_with_log::<N, L>(&p1, cfg.ntrades);
    let market: Market<2, L> = Market::verif_from_books([b0, b1]);
    let mut env: MarketEnv<2, L> = MarketEnv::verif_from_market(step_size, market);
    // k prior records per asset
    let mut a = 0;
    while a < 2 {
        let mut j = 0;
        while j < k {
            let rec: Level2Data<L> = Level2Data {
                bid_price: any_u32(),
                ask_price: any_u32(),
                bid_vol: any_u32(),
                ask_vol: any_u32(),
                bid_price_levels: core::array::from_fn(|_| (any_u32(), any_u32())),
                ask_price_levels: core::array::from_fn(|_| (any_u32(), any_u32())),
            };
            env.level_2_data_records[a].append_record(&rec);
            env.trade_vols[a].push(any_u32());
            j += 1;
        }
        a += 1;
    }
    // whatever the caches held before must not survive the step
    env.level_2_data = [any_l2::<L>(), any_l2::<L>()];
    let mut i = 0;
    while i < NB {
        let id = (assets[i], evs[i].id);
        env.transactions.push(match evs[i].kind {
            0 => Event::New { order_id: id },
            1 => Event::Cancellation { order_id: id },
            _ => Event::Modify { order_id: id, new_price: evs[i].np, new_vol: evs[i].nv },
        });
        i += 1;
    }
    let mut rng = SymRng::new();
    shuffle_words(&mut rng, NB);
    rng.strict = true;
    let mut rng2 = rng;

    env.step(&mut rng);

    let mut pi = [0usize; NB];
    let mut i = 0;
    while i < NB {
        pi[i] = i;
        i += 1;
    }
    pi.shuffle(&mut rng2);
    vcheck!(env.transactions.is_empty(), "STEP.queue_empty_after_step");
    vcheck!(env.market.get_time() == p0.t + step_size, "STEP.clock_at_start_plus_step_size");
    // every instruction was handed to process_event exactly once, in the shuffled order, addressed to
    // its own asset, at the shared times start+i (i = position in the whole batch, not per asset)
    let (log, nlog) = bourse_book::verif::market_log();
    let mut cnt = [0usize; 2];
    let mut order_ok = true;
    let mut time_ok = true;
    let mut i = 0;
    while i < NB {
        let a = assets[pi[i]];
        let e = &evs[pi[i]];
        if i < nlog {
            let t = &log[i];
            let code = e.kind as usize + if e.np.is_some() { 4 } else { 0 } + if e.nv.is_some() { 8 } else { 0 };
            order_ok &= t.asset == a && t.id == e.id && t.code == code && t.price == e.np.unwrap_or(0) && t.vol == e.nv.unwrap_or(0);
            time_ok &= t.t == p0.t + i as u64;
        }
        cnt[a] += 1;
        i += 1;
    }
    vcheck!(nlog == NB, "STEP.every_instruction_processed_exactly_once");
    vcheck!(order_ok, "STEP.processing_order_is_the_permutation_the_words_induce_and_arguments_intact");
    vcheck!(time_ok, "STEP.ith_processed_instruction_stamped_start_plus_i");
    vcheck!(env.market.get_order_book(0).get_trades().len() == cfg.ntrades && env.market.get_order_book(1).get_trades().len() == cfg.ntrades
        && old_trades_unchanged(env.market.get_order_book(0), cfg.ntrades, &old0) && old_trades_unchanged(env.market.get_order_book(1), cfg.ntrades, &old1), "STEP.trade_logs_untouched_by_the_loop");
    let tv = env.market.get_trade_vols();
    vcheck!(tv[0] == cnt[0] as u32 && tv[1] == cnt[1] as u32, "STEP.trade_vol_counts_only_this_step_per_asset");
    vcheck!(rng.calls == NB.saturating_sub(1) && !rng.overdrawn, "STEP.draws_exactly_the_shuffle_words");
    let mut e0 = p0;
    e0.t = p0.t + step_size;
    e0.trade_vol = cnt[0] as u32;
    let mut e1 = p1;
    e1.t = p0.t + step_size;
    e1.trade_vol = cnt[1] as u32;
    vcheck!(table_matches(env.market.get_order_book(0), &e0) && table_matches(env.market.get_order_book(1), &e1), "STEP.applies_nothing_else");
    // per-asset cache and records
    let live = env.market.level_2_data();
    vcheck!(l2_equal(&env.level_2_data[0], &live[0]) && l2_equal(&env.level_2_data[1], &live[1]), "CACHE.level_2_snapshot_equals_live_book_after_step");
    let mut rec_ok = true;
    let mut a = 0;
    while a < 2 {
        let r = &env.level_2_data_records[a];
        let b = env.market.get_order_book(a);
        let (bid, ask) = b.bid_ask();
        let (bl, al) = (b.bid_levels(), b.ask_levels());
        rec_ok &= r.prices.0.len() == k + 1 && r.prices.1.len() == k + 1 && r.volumes.0.len() == k + 1 && r.volumes.1.len() == k + 1 && env.trade_vols[a].len() == k + 1;
        if rec_ok {
            rec_ok &= r.prices.0[k] == bid && r.prices.1[k] == ask && r.volumes.0[k] == b.bid_vol() && r.volumes.1[k] == b.ask_vol();
            rec_ok &= env.trade_vols[a][k] == cnt[a] as u32;
            let mut l = 0;
            while l < L {
                rec_ok &= r.volumes_at_levels.0[l].len() == k + 1 && r.volumes_at_levels.1[l].len() == k + 1 && r.orders_at_levels.0[l].len() == k + 1 && r.orders_at_levels.1[l].len() == k + 1;
                if rec_ok {
                    rec_ok &= r.volumes_at_levels.0[l][k] == bl[l].0 && r.orders_at_levels.0[l][k] == bl[l].1 && r.volumes_at_levels.1[l][k] == al[l].0 && r.orders_at_levels.1[l][k] == al[l].1;
                }
                l += 1;
            }
        }
        a += 1;
    }
    vcheck!(rec_ok, "RECORDS.one_faithful_entry_appended_to_every_series_of_every_asset");
    if NB >= 2 {
        vcover!(pi[0] == NB - 1 && assets[0] != assets[1], "cover.cross_asset_batch_reordered");
    }
    core::mem::forget(env);
}

/// C10 / C08 for the multi-asset environment: one submission between steps on an arbitrary
/// two-asset environment with one instruction already waiting (possibly the same instruction:
/// duplicates must be queued, not merged)
pub fn market_submit<const N: usize, const L: usize>(m: usize, cfg: GenCfg, which: u8, asset_fixed: usize) {
    let p0: Plain<N> = gen_plain::<N>(m, cfg);
    let mut p1: Plain<N> = gen_plain::<N>(m, cfg);
    p1.t = p0.t;
    p1.trading = p0.trading;
    let (b0, old0) = build_with_log::<N, L>(&p0, cfg.ntrades);
    let (b1, old1) = build_with_log::<N, L>(&p1, cfg.ntrades);
    let t0 = build::<N, L>(&p0, 0);
    let t1 = build::<N, L>(&p1, 0);
    let market: Market<2, L> = Market::verif_from_books([b0, b1]);
    let mut env: MarketEnv<2, L> = MarketEnv::verif_from_market(any_u64(), market);
    let c0 = any_l2::<L>();
    let c1 = any_l2::<L>();
    let keep0: Level2Data<L> = Level2Data { bid_price: c0.bid_price, ask_price: c0.ask_price, bid_vol: c0.bid_vol, ask_vol: c0.ask_vol, bid_price_levels: c0.bid_price_levels, ask_price_levels: c0.ask_price_levels };
    let keep1: Level2Data<L> = Level2Data { bid_price: c1.bid_price, ask_price: c1.ask_price, bid_vol: c1.bid_vol, ask_vol: c1.ask_vol, bid_price_levels: c1.bid_price_levels, ask_price_levels: c1.ask_price_levels };
    env.level_2_data = [c0, c1];
    // one instruction is already waiting
    let w = gen_ev(m, 1, EV_ANY);
    let wa = if any_bool() { 1usize } else { 0usize };
    let wid = (wa, w.id);
    env.transactions.push(match w.kind {
        0 => Event::New { order_id: wid },
        1 => Event::Cancellation { order_id: wid },
        _ => Event::Modify { order_id: wid, new_price: w.np, new_vol: w.nv },
    });
    // (a creation through a symbolically addressed book pushes into a symbolically chosen vector:
    // out of reach; the asset is concrete in the place harnesses)
    let a = if asset_fixed < 2 { asset_fixed } else if any_bool() { 1usize } else { 0usize };
    let id = any_usize();
    let np = if any_bool() { Some(any_u32()) } else { None };
    let nv = if any_bool() { Some(any_u32()) } else { None };
    let mut created = [m, m];
    let mut expect_queue = 2usize;
    match which {
        0 => {
            let bid = any_bool();
            let vol = any_u32();
            let trader = any_u32();
            let price = if any_bool() { Some(any_u32()) } else { None };
            let tick = if a == 0 { p0.tick } else { p1.tick };
            let on_grid = match price {
                Some(px) => px % tick == 0,
                None => true,
            };
            match env.place_order(a, if bid { Side::Bid } else { Side::Ask }, vol, trader, price) {
                Ok(new_id) => {
                    vcheck!(on_grid, "GRID.off_grid_creation_is_rejected");
                    vcheck!(new_id == (a, m), "SUBMIT.ids_are_asset_and_per_asset_sequence_number");
                    created[a] = m + 1;
                    if env.market.get_order_book(a).verif_n_orders() == m + 1 {
                        let o = env.order((a, m));
                        let want = match price {
                            Some(px) => px,
                            None => if bid { Price::MAX } else { 0 },
                        };
                        vcheck!(o.status == Status::New && matches!(o.side, Side::Bid) == bid && o.vol == vol && o.start_vol == vol && o.price == want && o.trader_id == trader && o.order_id == m && o.arr_time == p0.t,
                            "SUBMIT.new_order_appears_with_status_new_and_the_submitted_fields");
                    }
                    vcheck!(env.verif_queue_len() == 2 && env.verif_queued(1) == (0, (a, m), None, None), "SUBMIT.queue_grows_by_exactly_the_new_order_instruction");
                }
                Err(_) => {
                    vcheck!(!on_grid, "GRID.on_grid_creation_is_accepted");
                    expect_queue = 1;
                }
            }
        }
        1 => {
            env.cancel_order((a, id));
            vcheck!(env.verif_queue_len() == 2 && env.verif_queued(1) == (1, (a, id), None, None), "SUBMIT.queue_grows_by_exactly_the_cancel_instruction");
        }
        _ => {
            env.modify_order((a, id), np, nv);
            vcheck!(env.verif_queue_len() == 2 && env.verif_queued(1) == (2, (a, id), np, nv), "SUBMIT.queue_grows_by_exactly_the_modify_instruction");
        }
    }
    vcheck!(env.verif_queue_len() == expect_queue, "SUBMIT.queue_length");
    vcheck!(env.verif_queued(0) == (w.kind, wid, w.np, w.nv), "SUBMIT.waiting_instructions_untouched");
    let (x0, x1) = (env.market.get_order_book(0), env.market.get_order_book(1));
    vcheck!(x0.verif_n_orders() == created[0] && x1.verif_n_orders() == created[1], "SUBMIT.only_the_addressed_asset_gets_the_new_order");
    vcheck!(snapshot_equal_prefix::<N, L>(x0, &p0, cfg.ntrades, &old0) && snapshot_equal_prefix::<N, L>(x1, &p1, cfg.ntrades, &old1), "SUBMIT.live_books_unchanged_until_next_step");
    vcheck!(sides_same(x0, &t0) && sides_same(x1, &t1), "SUBMIT.side_indexes_untouched");
    vcheck!(l2_equal(&env.level_2_data[0], &keep0) && l2_equal(&env.level_2_data[1], &keep1), "SUBMIT.cached_level_2_snapshots_untouched");
    vcheck!(env.trade_vols[0].is_empty() && env.trade_vols[1].is_empty() && env.level_2_data_records[0].prices.0.is_empty() && env.level_2_data_records[1].prices.0.is_empty(), "SUBMIT.recorded_histories_untouched");
    vcover!(which == 1 && w.kind == 1 && wid == (a, id), "cover.duplicate_cancel_of_the_same_order");
    vcover!(which == 0 && created[a] == m + 1, "cover.order_created_on_the_addressed_asset");
    core::mem::forget(env);
    core::mem::forget(t0);
    core::mem::forget(t1);
}

/// `MarketEnv::enable_trading` / `disable_trading`: every asset's flag is set, nothing else changes
pub fn market_env_toggle<const N: usize, const L: usize>(m: usize) {
    let cfg = LOG1;
    let p0: Plain<N> = gen_plain::<N>(m, cfg);
    let mut p1: Plain<N> = gen_plain::<N>(m, cfg);
    p1.t = p0.t;
    p1.trading = p0.trading;
    let (b0, old0) = build_with_log::<N, L>(&p0, cfg.ntrades);
    let (b1, old1) = build_with_log::<N, L>(&p1, cfg.ntrades);
    let (t0, t1) = (build::<N, L>(&p0, 0), build::<N, L>(&p1, 0));
    let mut env: MarketEnv<2, L> = MarketEnv::verif_from_market(any_u64(), Market::verif_from_books([b0, b1]));
    let on = any_bool();
    if on {
        env.enable_trading();
    } else {
        env.disable_trading();
    }
    let (mut e0, mut e1) = (p0, p1);
    e0.trading = on;
    e1.trading = on;
    vcheck!(env.market.verif_book(0).verif_trading() == on && env.market.verif_book(1).verif_trading() == on, "TOGGLE.sets_every_assets_flag");
    vcheck!(snapshot_equal::<N, L>(env.market.verif_book(0), &e0, cfg.ntrades, &old0, false) && sides_same(env.market.verif_book(0), &t0), "TOGGLE.changes_nothing_else_in_the_book");
    vcheck!(snapshot_equal::<N, L>(env.market.verif_book(1), &e1, cfg.ntrades, &old1, false) && sides_same(env.market.verif_book(1), &t1), "TOGGLE.changes_nothing_else_in_the_book");
    vcheck!(env.verif_queue_len() == 0, "TOGGLE.queue_and_histories_untouched");
    vcover!(on && !p0.trading, "cover.re_enabled");
    core::mem::forget(env);
    core::mem::forget(t0);
    core::mem::forget(t1);
}

pub static mut MCANCELLED: [MarketOrderId; 8] = [(0, 0); 8];
pub static mut NMCANCELLED: usize = 0;
pub fn mcancelled() -> ([MarketOrderId; 8], usize) {
    unsafe { (MCANCELLED, NMCANCELLED) }
}

// (generic parameters named as in the crate: Kani compares stub signatures nominally)
impl<const ASSETS: usize, const LEVELS: usize> MarketEnv<ASSETS, LEVELS> {
    /// Stand-in for `MarketEnv::cancel_order` in whole-`update` agent harnesses: records the id.
    pub fn verif_log_cancel_order(&mut self, order_id: MarketOrderId) {
        unsafe {
            let n = NMCANCELLED;
            if n < 8 {
                MCANCELLED[n] = order_id;
            }
            NMCANCELLED = n + 1;
        }
    }
    /// Stand-in for `MarketEnv::place_order` in whole-`update` agent harnesses (see
    /// `Env::verif_log_place_order`): same tick-grid test, fixed-size log, ids (asset, n).
    pub fn verif_log_place_order(&mut self, asset: AssetIdx, side: Side, vol: Vol, trader_id: TraderId, price: Option<Price>) -> Result<MarketOrderId, OrderError> {
        use crate::env::verif_proofs::{Placed, NPLACED, PLACED, PLACED_CAP};
        let tick = self.market.get_order_book(asset).verif_tick();
        if let Some(p) = price {
            if p % tick != 0 {
                return Err(OrderError::PriceError { price: p, tick_size: tick });
            }
        }
        unsafe {
            let n = NPLACED;
            if n < PLACED_CAP {
                PLACED[n] = Placed { asset, bid: matches!(side, Side::Bid), vol, trader: trader_id, price };
            }
            NPLACED = n + 1;
            Ok((asset, n))
        }
    }
}

vharnesses! {
    #[cfg_attr(kani, kani::unwind(6))]
    fn market_env_toggle_m1() { market_env_toggle::<2, 2>(1) }
    #[cfg_attr(kani, kani::unwind(6))]
    #[cfg_attr(kani, kani::stub(bourse_book::Market::process_event, bourse_book::Market::verif_log_event))]
    fn market_env_submit_place_asset0() { market_submit::<2, 2>(1, LOG1, 0, 0) }
    #[cfg_attr(kani, kani::unwind(6))]
    fn market_env_submit_place_asset1() { market_submit::<2, 2>(1, LOG1, 0, 1) }
    #[cfg_attr(kani, kani::unwind(6))]
    fn market_env_submit_cancel() { market_submit::<2, 2>(1, LOG1, 1, usize::MAX) }
    #[cfg_attr(kani, kani::unwind(6))]
    fn market_env_submit_modify() { market_submit::<2, 2>(1, LOG1, 2, usize::MAX) }
    #[cfg_attr(kani, kani::unwind(6))]
    #[cfg_attr(kani, kani::stub(bourse_book::Market::process_event, bourse_book::Market::verif_log_event))]
    fn market_env_step_loop_b2() { market_step_loop::<2, 2, 2>(1, 0) }
    #[cfg_attr(kani, kani::unwind(6))]
    #[cfg_attr(kani, kani::stub(bourse_book::Market::process_event, bourse_book::Market::verif_log_event))]
    fn market_env_step_loop_b3() { market_step_loop::<2, 2, 3>(1, 0) }
}
