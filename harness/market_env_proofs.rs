//! Hooked into `crates/step_sim/src/market_env.rs` (child module: sees `MarketEnv`'s private fields).
#![allow(dead_code)]
#![allow(clippy::all)]
use super::*;
use crate::verif::*;
use bourse_book::verif::book::*;
#[allow(unused_imports)]
use bourse_book::verif::src::*;
use bourse_book::{vcheck, vcover, vharnesses};

impl<const A: usize, const L: usize> MarketEnv<A, L> {
    /// assemble an environment around a given market (harness constructor)
    pub fn verif_from_market(step_size: Nanos, market: Market<A, L>) -> Self {
        let level_2_data = market.level_2_data();
        Self {
            step_size,
            market,
            trade_vols: array::from_fn(|_| Vec::new()),
            transactions: Vec::new(),
            level_2_data,
            level_2_data_records: array::from_fn(|_| Level2DataRecords::new()),
        }
    }
    pub fn verif_queue_len(&self) -> usize {
        self.transactions.len()
    }
    pub fn verif_queued(&self, i: usize) -> (u8, MarketOrderId, Option<Price>, Option<Vol>) {
        match &self.transactions[i] {
            Event::New { order_id } => (0, *order_id, None, None),
            Event::Cancellation { order_id } => (1, *order_id, None, None),
            Event::Modify { order_id, new_price, new_vol } => (2, *order_id, *new_price, *new_vol),
        }
    }
}

vharnesses! {
}
