//! Hooked into `crates/order_book/src/orderbook.rs` (child module: sees private fields).
//!
//! One inductive step over a symbolic book (DESIGN.md §3): draw an arbitrary order table that
//! satisfies the representation invariant `I`, build the book from it with the repository's own
//! `TryFrom<OrderBookState>`, run ONE real operation with symbolic arguments and compare with a
//! small reference matching engine over plain arrays.
#![allow(dead_code)]
#![allow(clippy::all)]
use super::*;
#[allow(unused_imports)]
use crate::verif::src::*;
use crate::{vcheck, vcover, vharnesses};

// ------------------------------------------------------------------------------------------
// plain records
// ------------------------------------------------------------------------------------------

#[derive(Clone, Copy)]
pub struct TradeRec {
    pub t: Nanos,
    pub bid_side: bool,
    pub price: Price,
    pub vol: Vol,
    pub active: OrderId,
    pub passive: OrderId,
}
pub const TR0: TradeRec = TradeRec { t: 0, bid_side: false, price: 0, vol: 0, active: 0, passive: 0 };

pub fn is_bid(s: Side) -> bool {
    match s {
        Side::Bid => true,
        Side::Ask => false,
    }
}
pub fn mk_side(b: bool) -> Side {
    if b {
        Side::Bid
    } else {
        Side::Ask
    }
}
pub fn trade_rec(t: &Trade) -> TradeRec {
    TradeRec { t: t.t, bid_side: is_bid(t.side), price: t.price, vol: t.vol, active: t.active_order_id, passive: t.passive_order_id }
}
pub fn trade_eq(a: &TradeRec, b: &TradeRec) -> bool {
    a.t == b.t && a.bid_side == b.bid_side && a.price == b.price && a.vol == b.vol && a.active == b.active && a.passive == b.passive
}
pub fn order_eq(a: &Order, b: &Order) -> bool {
    is_bid(a.side) == is_bid(b.side)
        && a.status == b.status
        && a.arr_time == b.arr_time
        && a.end_time == b.end_time
        && a.vol == b.vol
        && a.start_vol == b.start_vol
        && a.price == b.price
        && a.trader_id == b.trader_id
        && a.order_id == b.order_id
}
pub fn key_eq(a: &OrderKey, b: &OrderKey) -> bool {
    is_bid(a.0) == is_bid(b.0) && a.1 == b.1 && a.2 == b.2
}
/// observable equality of two table entries: the public record, plus the queue key while the
/// order is (or can still get) on the book
pub fn entry_eq(a: &OrderEntry, b: &OrderEntry) -> bool {
    order_eq(&a.order, &b.order)
        && (!(a.order.status == Status::Active || a.order.status == Status::New) || (is_bid(a.key.0) == is_bid(b.key.0) && a.key.1 == b.key.1))
        && (a.order.status != Status::New || a.key.2 == b.key.2)
}
pub fn is_market(o: &Order) -> bool {
    if is_bid(o.side) {
        o.price == Price::MAX
    } else {
        o.price == 0
    }
}
pub fn price_key(bid: bool, price: Price) -> Price {
    if bid {
        Price::MAX - price
    } else {
        price
    }
}
pub const E0: OrderEntry = OrderEntry {
    order: Order { side: Side::Ask, status: Status::Rejected, arr_time: 0, end_time: 0, vol: 0, start_vol: 0, price: 0, trader_id: 0, order_id: 0 },
    key: (Side::Ask, 0, 0),
};

// (the generic parameter is named as in the crate: Kani compares stub signatures nominally)
impl<const LEVELS: usize> OrderBook<LEVELS> {
    /// Stand-in for `process_event` in step-LOOP harnesses (C08/C15, `#[kani::stub]`): appends one
    /// record (book time at the call, instruction kind / id / arguments) to the trade log and adds 1
    /// to the traded-volume counter; touches nothing else.  What `process_event` itself does is
    /// decided by the book-step harnesses (C01, C06, C13).
    pub fn verif_log_event(&mut self, event: Event<OrderId>) {
        let (kind, id, np, nv) = match event {
            Event::New { order_id } => (0usize, order_id, None, None),
            Event::Cancellation { order_id } => (1usize, order_id, None, None),
            Event::Modify { order_id, new_price, new_vol } => (2usize, order_id, new_price, new_vol),
        };
        let code = kind + if np.is_some() { 4 } else { 0 } + if nv.is_some() { 8 } else { 0 };
        self.trades.push(Trade { t: self.t, side: Side::Bid, price: np.unwrap_or(0), vol: nv.unwrap_or(0), active_order_id: id, passive_order_id: code });
        self.trade_vol = self.trade_vol.wrapping_add(1);
    }
}

impl<const L: usize> OrderBook<L> {
    /// number of orders ever created (harness observation for dependent crates)
    pub fn verif_n_orders(&self) -> usize {
        self.orders.len()
    }
    pub fn verif_add_trade_vol(&mut self, v: Vol) {
        self.trade_vol = self.trade_vol.wrapping_add(v);
    }
    pub fn verif_set_trade_vol(&mut self, v: Vol) {
        self.trade_vol = v;
    }
    pub fn verif_tick(&self) -> Price {
        self.tick_size
    }
    /// queue time under which order `i` is (or was last) queued
    pub fn verif_key_time(&self, i: usize) -> Nanos {
        self.orders[i].key.2
    }
    pub fn verif_trading(&self) -> bool {
        self.trading
    }
}

/// accessors for harnesses of dependent crates (`OrderEntry`'s fields are private to this module)
pub fn entry_order(e: &OrderEntry) -> &Order {
    &e.order
}
pub fn entry_key_time(e: &OrderEntry) -> Nanos {
    e.key.2
}
pub fn entry_key(e: &OrderEntry) -> OrderKey {
    e.key
}
/// the first `ntr0` trade records are still the ones in `old`
pub fn old_trades_unchanged<const L: usize>(b: &OrderBook<L>, ntr0: usize, old: &[TradeRec; 2]) -> bool {
    let mut same = b.trades.len() >= ntr0;
    let mut k = 0;
    while k < 2 {
        if k < ntr0 && k < b.trades.len() {
            same &= trade_eq(&trade_rec(&b.trades[k]), &old[k]);
        }
        k += 1;
    }
    same
}

// ------------------------------------------------------------------------------------------
// symbolic pre-state  (representation invariant I, DESIGN.md §3.3)
// ------------------------------------------------------------------------------------------

#[derive(Clone, Copy)]
pub struct GenCfg {
    /// tick size symbolic in 1..=10 (else 1)
    pub sym_tick: bool,
    /// representation invariant on queue times: resting orders carry pairwise distinct ones (the
    /// book hands them out strictly increasing)
    pub discipline: bool,
    /// trading flag: None = symbolic
    pub trading: Option<bool>,
    /// assume best bid < best ask
    pub uncrossed: bool,
    /// number of pre-existing (arbitrary) trade records
    pub ntrades: usize,
    /// full-width values (u32 prices/volumes/traders, u64 times); false = 8-bit domains widened
    pub wide: bool,
    /// per-entry shape: 0 arbitrary | 1 New | 2 Active | 10/11 New bid/ask limit | 12/13 New
    /// bid/ask market | 20/21 Active bid/ask limit.  A concrete shape keeps side / kind / status
    /// constants, so that the symbolic executor follows one dispatch path instead of all of them.
    pub shape: [u8; 4],
    /// tick size when it is not symbolic.  A remainder by a SYMBOLIC divisor (`price % tick` in
    /// `create_order`) makes CBMC's post-processing explode (tens of GB), so harnesses that reach
    /// `create_order` enumerate concrete ticks instead.
    pub tick: Price,
}
pub const CFG: GenCfg = GenCfg { sym_tick: false, discipline: true, trading: None, uncrossed: false, ntrades: 0, wide: true, shape: [0; 4], tick: 1 };
pub const CFG_NARROW: GenCfg = GenCfg { sym_tick: false, discipline: true, trading: None, uncrossed: false, ntrades: 0, wide: false, shape: [0; 4], tick: 1 };

pub fn g_u32(wide: bool) -> u32 {
    if wide { any_u32() } else { any_u8() as u32 }
}
pub fn g_u64(wide: bool) -> u64 {
    if wide { any_u64() } else { any_u8() as u64 }
}
/// an on-grid limit price strictly between 0 and MAX (drawn as multiple * tick: a product with a
/// small tick bit-blasts far better than a remainder by a symbolic divisor)
pub fn g_price(wide: bool, tick: Price) -> Price {
    let k: u32 = if wide { any_u32() } else { any_u8() as u32 };
    let p64 = (k as u64) * (tick as u64);
    assume(p64 > 0 && p64 < Price::MAX as u64);
    p64 as u32
}

/// plain (heap-free) image of a book: `n` table entries in a fixed array of capacity N
#[derive(Clone, Copy)]
pub struct Plain<const N: usize> {
    pub e: [OrderEntry; N],
    pub n: usize,
    pub t: Nanos,
    pub tick: Price,
    pub trading: bool,
    pub trade_vol: Vol,
    /// insertion sequence numbers for tie-breaking among equal (price, time) keys (C05 only)
    pub seq: [u32; N],
    pub next_seq: u32,
    /// trades appended by operations run on this image
    pub tr: [TradeRec; N],
    pub ntr: usize,
}

pub fn gen_entry(i: usize, t: Nanos, tick: Price, wide: bool, shape: u8) -> OrderEntry {
    let bid = match shape {
        10 | 12 | 20 => true,
        11 | 13 | 21 => false,
        _ => any_bool(),
    };
    let status = match shape {
        0 => {
            let st = any_u8();
            assume(st < 5);
            match st {
                0 => Status::New,
                1 => Status::Active,
                2 => Status::Filled,
                3 => Status::Cancelled,
                _ => Status::Rejected,
            }
        }
        2 | 20 | 21 => Status::Active,
        _ => Status::New,
    };
    let market = match shape {
        2 | 10 | 11 | 20 | 21 => false,
        12 | 13 => true,
        _ => any_bool(),
    };
    let price = if market {
        if bid { Price::MAX } else { 0 }
    } else {
        g_price(wide, tick)
    };
    let mut vol = g_u32(wide);
    let start_vol = g_u32(wide);
    let arr_time = g_u64(wide);
    let mut end_time = g_u64(wide);
    // the key of an order that is no longer (or not yet) on the book is never read: arbitrary
    let mut key_price = g_u32(wide);
    let mut key_time = g_u64(wide);
    let trader_id = g_u32(wide);
    assume(start_vol >= 1);
    assume(arr_time <= t);
    let pk = price_key(bid, price);
    match status {
        Status::New => {
            vol = start_vol;
            end_time = Nanos::MAX;
            key_time = 0;
            key_price = pk;
        }
        Status::Active => {
            // queue time: stamped at (or, after a tie, just after) the time the order was queued
            assume(!market && vol >= 1 && arr_time <= key_time && key_time < Nanos::MAX - 8);
            end_time = Nanos::MAX;
            key_price = pk;
        }
        Status::Filled => {
            vol = 0;
            assume(arr_time <= end_time && end_time <= t);
        }
        Status::Cancelled => assume(vol >= 1 && arr_time <= end_time && end_time <= t),
        Status::Rejected => {
            assume(market);
            vol = start_vol;
            end_time = arr_time;
        }
    }
    OrderEntry {
        order: Order { side: mk_side(bid), status, arr_time, end_time, vol, start_vol, price, trader_id, order_id: i },
        key: (mk_side(bid), key_price, key_time),
    }
}

pub fn active(e: &OrderEntry) -> bool {
    e.order.status == Status::Active
}

/// draw an arbitrary table of exactly M entries satisfying I, inside capacity N (> M)
pub fn gen_plain<const N: usize>(m: usize, cfg: GenCfg) -> Plain<N> {
    let t = g_u64(cfg.wide);
    // the last few clock values are excluded: Nanos::MAX is the "still live" end-time sentinel and
    // queue times saturate there
    assume(t < Nanos::MAX - 8);
    let tick: Price = if cfg.sym_tick {
        let k = any_u32();
        assume(k >= 1 && k <= 10);
        k
    } else {
        cfg.tick
    };
    let trading = match cfg.trading {
        Some(b) => b,
        None => any_bool(),
    };
    let trade_vol = g_u32(cfg.wide);
    let mut e = [E0; N];
    let mut i = 0;
    while i < m {
        e[i] = gen_entry(i, t, tick, cfg.wide, if i < 4 { cfg.shape[i] } else { 0 });
        i += 1;
    }
    // creation order: a New entry still carries its creation time, later ids were created later
    let mut i = 0;
    while i < m {
        let mut j = i + 1;
        while j < m {
            if e[i].order.status == Status::New {
                assume(e[i].order.arr_time <= e[j].order.arr_time);
            }
            if cfg.discipline && active(&e[i]) && active(&e[j]) {
                // the book hands out strictly increasing queue times
                assume(e[i].key.2 != e[j].key.2);
            }
            j += 1;
        }
        i += 1;
    }
    let p = Plain { e, n: m, t, tick, trading, trade_vol, seq: [0; N], next_seq: 1, tr: [TR0; N], ntr: 0 };
    // resting volume per side < 2^32
    let (bv, av) = side_vols(&p);
    assume(bv <= u32::MAX as u64 && av <= u32::MAX as u64);
    if cfg.uncrossed {
        let v = views::<N, 1>(&p);
        assume(v.bid == 0 || v.ask == Price::MAX || v.bid < v.ask);
    }
    p
}

pub fn side_vols<const N: usize>(p: &Plain<N>) -> (u64, u64) {
    let mut bv: u64 = 0;
    let mut av: u64 = 0;
    let mut i = 0;
    while i < p.n {
        if active(&p.e[i]) {
            if is_bid(p.e[i].order.side) {
                bv += p.e[i].order.vol as u64;
            } else {
                av += p.e[i].order.vol as u64;
            }
        }
        i += 1;
    }
    (bv, av)
}

/// arbitrary pre-existing trade record (the ledger's past is unconstrained)
pub fn gen_trade() -> Trade {
    Trade { t: any_u64(), side: mk_side(any_bool()), price: any_u32(), vol: any_u32(), active_order_id: any_usize(), passive_order_id: any_usize() }
}

/// build the real book from the plain image through the repository's own `try_from`
pub fn build<const N: usize, const L: usize>(p: &Plain<N>, ntrades: usize) -> OrderBook<L> {
    let mut orders: Vec<OrderEntry> = Vec::with_capacity(N + 1);
    let mut i = 0;
    while i < p.n {
        orders.push(p.e[i]);
        i += 1;
    }
    let mut trades: Vec<Trade> = Vec::with_capacity(ntrades + N + 1);
    let mut i = 0;
    while i < ntrades {
        trades.push(gen_trade());
        i += 1;
    }
    let state: OrderBookState<L> = OrderBookState { t: p.t, tick_size: p.tick, trade_vol: p.trade_vol, orders, trades, trading: p.trading };
    match OrderBook::<L>::try_from(state) {
        Ok(mut b) => {
            // the state every harness continues from is a LOADED book: what was stored is what is restored
            // (a scalar lost or defaulted here would otherwise only show as an unreachable cover)
            vcheck!(b.t == p.t && b.trading == p.trading && b.tick_size == p.tick && b.trade_vol == p.trade_vol && b.orders.len() == p.n && b.trades.len() == ntrades,
                "LOAD.clock_flag_tick_counter_and_record_counts_restored_as_stored");
            let ahead = any_u64();
            assume(ahead < Nanos::MAX - 8);
            if ahead > b.next_queue_time {
                b.next_queue_time = ahead;
            }
            b
        }
        Err(_) => {
            assume(false);
            unreachable!()
        }
    }
}

// ------------------------------------------------------------------------------------------
// reference matching engine (DESIGN.md §3.5) — plain arrays, no maps, no heap
// ------------------------------------------------------------------------------------------

/// index of the resting order an aggressor on side `agg_bid` must trade with next
pub fn ref_best<const N: usize>(r: &Plain<N>, agg_bid: bool) -> Option<usize> {
    let mut best: Option<usize> = None;
    let mut j = 0;
    while j < r.n {
        let e = &r.e[j];
        if active(e) && is_bid(e.order.side) != agg_bid {
            best = match best {
                None => Some(j),
                Some(b) => {
                    let eb = &r.e[b];
                    // passive asks: lowest price first; passive bids: highest price first
                    let better_price = if agg_bid { e.order.price < eb.order.price } else { e.order.price > eb.order.price };
                    let same_price = e.order.price == eb.order.price;
                    let earlier = e.key.2 < eb.key.2 || (e.key.2 == eb.key.2 && r.seq[j] < r.seq[b]);
                    if better_price || (same_price && earlier) {
                        Some(j)
                    } else {
                        Some(b)
                    }
                }
            };
        }
        j += 1;
    }
    best
}

pub fn ref_match<const N: usize>(r: &mut Plain<N>, agg: &mut OrderEntry) {
    let agg_bid = is_bid(agg.order.side);
    let mut k = 0;
    while k < N {
        if agg.order.vol == 0 {
            break;
        }
        let j = match ref_best(r, agg_bid) {
            Some(j) => j,
            None => break,
        };
        let pp = r.e[j].order.price;
        let admits = if agg_bid { agg.order.price >= pp } else { agg.order.price <= pp };
        if !admits {
            break;
        }
        let fill = if agg.order.vol < r.e[j].order.vol { agg.order.vol } else { r.e[j].order.vol };
        agg.order.vol -= fill;
        r.e[j].order.vol -= fill;
        if r.ntr < N {
            r.tr[r.ntr] = TradeRec { t: r.t, bid_side: !agg_bid, price: pp, vol: fill, active: agg.order.order_id, passive: r.e[j].order.order_id };
        }
        r.ntr += 1;
        r.trade_vol = r.trade_vol.wrapping_add(fill);
        if r.e[j].order.vol == 0 {
            r.e[j].order.status = Status::Filled;
            r.e[j].order.end_time = r.t;
        }
        if agg.order.vol == 0 {
            agg.order.status = Status::Filled;
            agg.order.end_time = r.t;
        }
        k += 1;
    }
}

pub fn ref_create<const N: usize>(r: &mut Plain<N>, bid: bool, vol: Vol, trader: TraderId, price: Option<Price>) -> Option<usize> {
    let p = match price {
        Some(p) => {
            if p % r.tick != 0 {
                return None;
            }
            p
        }
        None => {
            if bid {
                Price::MAX
            } else {
                0
            }
        }
    };
    let id = r.n;
    r.e[id] = OrderEntry {
        order: Order { side: mk_side(bid), status: Status::New, arr_time: r.t, end_time: Nanos::MAX, vol, start_vol: vol, price: p, trader_id: trader, order_id: id },
        key: (mk_side(bid), price_key(bid, p), 0),
    };
    r.n += 1;
    Some(id)
}

/// the queue time the next queued order gets: the current time, or the first free one after every
/// resting order's (ties: the clock was not advanced) - strictly after everything already queued
pub fn ref_next_queue_time<const N: usize>(r: &Plain<N>) -> Nanos {
    let mut q = r.t;
    let mut j = 0;
    while j < N {
        if j < r.n && active(&r.e[j]) && r.e[j].key.2 >= q {
            q = r.e[j].key.2 + 1;
        }
        j += 1;
    }
    q
}

pub fn ref_place<const N: usize>(r: &mut Plain<N>, a: usize) {
    let mut e = r.e[a];
    if e.order.status != Status::New {
        return;
    }
    e.order.status = Status::Active;
    e.order.arr_time = r.t;
    let market = is_market(&e.order);
    if market && !r.trading {
        e.order.status = Status::Rejected;
        e.order.end_time = r.t;
        r.e[a] = e;
        return;
    }
    if r.trading {
        ref_match(r, &mut e);
    }
    if e.order.status != Status::Filled {
        if market {
            e.order.status = Status::Cancelled;
            e.order.end_time = r.t;
        } else {
            e.key = (e.order.side, price_key(is_bid(e.order.side), e.order.price), ref_next_queue_time(r));
            r.seq[a] = r.next_seq;
            r.next_seq += 1;
        }
    }
    r.e[a] = e;
}

pub fn ref_cancel<const N: usize>(r: &mut Plain<N>, a: usize) {
    if active(&r.e[a]) {
        r.e[a].order.status = Status::Cancelled;
        r.e[a].order.end_time = r.t;
    }
}

pub fn ref_modify<const N: usize>(r: &mut Plain<N>, a: usize, np: Option<Price>, nv: Option<Vol>) {
    let mut e = r.e[a];
    if !active(&e) {
        return;
    }
    let (p, v) = match (np, nv) {
        (None, None) => return,
        (None, Some(v)) => {
            if v < e.order.vol {
                // pure reduction: keeps its place
                r.e[a].order.vol = v;
                return;
            }
            (e.order.price, v)
        }
        (Some(p), None) => (p, e.order.vol),
        (Some(p), Some(v)) => (p, v),
    };
    // leaves the book, re-arrives now with the new price / volume
    e.order.status = Status::Cancelled; // off the book while it acts as aggressor
    r.e[a] = e;
    e.order.status = Status::Active;
    e.order.vol = v;
    e.order.price = p;
    if r.trading {
        ref_match(r, &mut e);
    }
    if e.order.status != Status::Filled {
        e.key = (e.order.side, price_key(is_bid(e.order.side), p), ref_next_queue_time(r));
        r.seq[a] = r.next_seq;
        r.next_seq += 1;
    }
    r.e[a] = e;
}

// ------------------------------------------------------------------------------------------
// market-data views recomputed from the order list alone (C02)
// ------------------------------------------------------------------------------------------

#[derive(Clone, Copy)]
pub struct Views<const L: usize> {
    pub bid: Price,
    pub ask: Price,
    pub bid_vol: Vol,
    pub ask_vol: Vol,
    pub bid_best: (Vol, OrderCount),
    pub ask_best: (Vol, OrderCount),
    pub bid_levels: [(Vol, OrderCount); L],
    pub ask_levels: [(Vol, OrderCount); L],
}

pub fn at_price<const N: usize>(p: &Plain<N>, bid: bool, price: Price) -> (Vol, OrderCount) {
    let mut v: Vol = 0;
    let mut c: OrderCount = 0;
    let mut i = 0;
    while i < p.n {
        let e = &p.e[i];
        if active(e) && is_bid(e.order.side) == bid && e.order.price == price {
            v = v.wrapping_add(e.order.vol);
            c += 1;
        }
        i += 1;
    }
    (v, c)
}

pub fn views<const N: usize, const L: usize>(p: &Plain<N>) -> Views<L> {
    let mut bid: Price = 0;
    let mut ask: Price = Price::MAX;
    let mut any_bid = false;
    let mut any_ask = false;
    let mut bid_vol: Vol = 0;
    let mut ask_vol: Vol = 0;
    let mut i = 0;
    while i < p.n {
        let e = &p.e[i];
        if active(e) {
            if is_bid(e.order.side) {
                if !any_bid || e.order.price > bid {
                    bid = e.order.price;
                }
                any_bid = true;
                bid_vol = bid_vol.wrapping_add(e.order.vol);
            } else {
                if !any_ask || e.order.price < ask {
                    ask = e.order.price;
                }
                any_ask = true;
                ask_vol = ask_vol.wrapping_add(e.order.vol);
            }
        }
        i += 1;
    }
    let bid_best = if any_bid { at_price(p, true, bid) } else { (0, 0) };
    let ask_best = if any_ask { at_price(p, false, ask) } else { (0, 0) };
    let mut bid_levels = [(0, 0); L];
    let mut ask_levels = [(0, 0); L];
    let mut l = 0;
    while l < L {
        let off = (l as Price).wrapping_mul(p.tick);
        bid_levels[l] = at_price(p, true, bid.wrapping_sub(off));
        ask_levels[l] = at_price(p, false, ask.wrapping_add(off));
        l += 1;
    }
    Views { bid, ask, bid_vol, ask_vol, bid_best, ask_best, bid_levels, ask_levels }
}

// ------------------------------------------------------------------------------------------
// observation of the real book
// ------------------------------------------------------------------------------------------

/// copy the real order table into a plain image (the harness's view of `get_orders()`)
pub fn observe<const N: usize, const L: usize>(b: &OrderBook<L>) -> Plain<N> {
    let mut e = [E0; N];
    let n = b.orders.len();
    let mut i = 0;
    while i < N {
        if i < n {
            e[i] = b.orders[i];
        }
        i += 1;
    }
    Plain { e, n, t: b.t, tick: b.tick_size, trading: b.trading, trade_vol: b.trade_vol, seq: [0; N], next_seq: 1, tr: [TR0; N], ntr: 0 }
}

/// the two incrementally maintained side indexes hold exactly the active orders of the table
/// (priority map, per-price (volume,count) map and side totals) — re-establishes I
pub fn index_consistent<const N: usize, const L: usize>(b: &OrderBook<L>, p: &Plain<N>) -> bool {
    let bs = b.bid_side.verif_inner();
    let asd = b.ask_side.verif_inner();
    let mut ok = true;
    let mut nb = 0usize;
    let mut na = 0usize;
    let mut nbp = 0usize; // distinct price keys
    let mut nap = 0usize;
    let mut bv: Vol = 0;
    let mut av: Vol = 0;
    let mut i = 0;
    while i < p.n {
        let e = &p.e[i];
        if active(e) {
            let bid = is_bid(e.order.side);
            let s = if bid { bs } else { asd };
            ok &= s.verif_get_order(e.key.1, e.key.2) == Some(e.order.order_id);
            ok &= is_bid(e.key.0) == bid;
            ok &= e.key.1 == price_key(bid, e.order.price);
            ok &= s.verif_get_volume(e.key.1) == Some(at_price(p, bid, e.order.price));
            // first active entry at this price on this side?
            let mut first = true;
            let mut j = 0;
            while j < i {
                if active(&p.e[j]) && is_bid(p.e[j].order.side) == bid && p.e[j].order.price == e.order.price {
                    first = false;
                }
                j += 1;
            }
            if bid {
                nb += 1;
                bv = bv.wrapping_add(e.order.vol);
                if first {
                    nbp += 1;
                }
            } else {
                na += 1;
                av = av.wrapping_add(e.order.vol);
                if first {
                    nap += 1;
                }
            }
        }
        i += 1;
    }
    ok &= bs.verif_orders_len() == nb && asd.verif_orders_len() == na;
    ok &= bs.verif_volumes_len() == nbp && asd.verif_volumes_len() == nap;
    ok &= bs.verif_total() == bv && asd.verif_total() == av;
    ok
}

/// every public market-data getter of the real book equals the recomputation `v`
pub fn views_match<const L: usize>(b: &OrderBook<L>, v: &Views<L>) -> bool {
    let mut ok = b.bid_ask() == (v.bid, v.ask);
    ok &= b.bid_vol() == v.bid_vol && b.ask_vol() == v.ask_vol;
    ok &= b.bid_best_vol() == v.bid_best.0 && b.ask_best_vol() == v.ask_best.0;
    ok &= b.bid_best_vol_and_orders() == v.bid_best && b.ask_best_vol_and_orders() == v.ask_best;
    let bl = b.bid_levels();
    let al = b.ask_levels();
    let mut l = 0;
    while l < L {
        ok &= bl[l] == v.bid_levels[l] && al[l] == v.ask_levels[l];
        l += 1;
    }
    ok
}

/// table of the real book == reference image (records, queue keys of live orders, scalars)
pub fn table_matches<const N: usize, const L: usize>(b: &OrderBook<L>, r: &Plain<N>) -> bool {
    let mut ok = b.orders.len() == r.n;
    let mut i = 0;
    while i < N {
        if i < r.n && i < b.orders.len() {
            ok &= entry_eq(&b.orders[i], &r.e[i]);
        }
        i += 1;
    }
    ok &= b.t == r.t && b.trading == r.trading && b.tick_size == r.tick;
    // queue order: the resting orders are queued in the same relative order as in the reference
    // (queue times are compared through the order they induce, not as absolute numbers)
    let mut i = 0;
    while i < N {
        let mut j = 0;
        while j < N {
            if i < r.n && j < r.n && i < b.orders.len() && j < b.orders.len() && i != j && active(&r.e[i]) && active(&r.e[j]) {
                ok &= (b.orders[i].key.2 < b.orders[j].key.2) == (r.e[i].key.2 < r.e[j].key.2);
            }
            j += 1;
        }
        i += 1;
    }
    ok
}

/// trades appended by the step == the reference's, in order; older records untouched is checked
/// separately (C03)
pub fn new_trades_match<const N: usize, const L: usize>(b: &OrderBook<L>, r: &Plain<N>, before: usize) -> bool {
    let mut ok = b.trades.len() == before + r.ntr;
    let mut k = 0;
    while k < N {
        if k < r.ntr && before + k < b.trades.len() {
            ok &= trade_eq(&trade_rec(&b.trades[before + k]), &r.tr[k]);
        }
        k += 1;
    }
    ok
}

// ------------------------------------------------------------------------------------------
// shared step machinery
// ------------------------------------------------------------------------------------------

/// the incrementally maintained side indexes equal the ones `try_from` rebuilds from the current
/// order list (this is at once the inductive re-establishment of I, the heart of C02 and of C07)
pub fn index_equals_reload<const N: usize, const L: usize>(b: &OrderBook<L>) -> bool {
    let mut orders: Vec<OrderEntry> = Vec::with_capacity(N + 1);
    let mut i = 0;
    while i < N {
        if i < b.orders.len() {
            orders.push(b.orders[i]);
        }
        i += 1;
    }
    let state: OrderBookState<L> = OrderBookState { t: b.t, tick_size: b.tick_size, trade_vol: b.trade_vol, orders, trades: Vec::new(), trading: b.trading };
    let ok = match OrderBook::<L>::try_from(state) {
        Ok(r) => {
            let same = r.bid_side.verif_inner().verif_same(b.bid_side.verif_inner()) && r.ask_side.verif_inner().verif_same(b.ask_side.verif_inner());
            core::mem::forget(r);
            same
        }
        Err(_) => false,
    };
    ok
}

/// both side indexes of `a` hold exactly the entries of `b`'s
pub fn sides_same<const L: usize>(a: &OrderBook<L>, b: &OrderBook<L>) -> bool {
    a.bid_side.verif_inner().verif_same(b.bid_side.verif_inner()) && a.ask_side.verif_inner().verif_same(b.ask_side.verif_inner())
}

/// every market-data getter == recomputation from the book's own order list (C02, first sentence)
pub fn c02_views_ok<const N: usize, const L: usize>(b: &OrderBook<L>) -> bool {
    let post: Plain<N> = observe::<N, L>(b);
    let v: Views<L> = views::<N, L>(&post);
    let mut ok = views_match(b, &v);
    let l1 = b.level_1_data();
    ok &= l1.bid_price == v.bid && l1.ask_price == v.ask && l1.bid_vol == v.bid_vol && l1.ask_vol == v.ask_vol;
    ok &= l1.bid_touch_vol == v.bid_best.0 && l1.bid_touch_orders == v.bid_best.1;
    ok &= l1.ask_touch_vol == v.ask_best.0 && l1.ask_touch_orders == v.ask_best.1;
    let l2 = b.level_2_data();
    ok &= l2.bid_price == v.bid && l2.ask_price == v.ask && l2.bid_vol == v.bid_vol && l2.ask_vol == v.ask_vol;
    let mut l = 0;
    while l < L {
        ok &= l2.bid_price_levels[l] == v.bid_levels[l] && l2.ask_price_levels[l] == v.ask_levels[l];
        l += 1;
    }
    // the views agree with one another
    if L > 0 {
        ok &= v.bid_levels[0] == v.bid_best && v.ask_levels[0] == v.ask_best;
    }
    ok
}

pub fn uncrossed<const N: usize>(p: &Plain<N>) -> bool {
    let v = views::<N, 1>(p);
    v.bid_vol == 0 || v.ask_vol == 0 || v.bid < v.ask
}

pub const G_REF: u32 = 1; // C01 / C06 / C13: records, trades, counter == reference engine
pub const G_INDEX: u32 = 2; // side indexes == rebuilt from the order list
pub const G_VIEWS: u32 = 4; // C02: every view == recomputation from the order list
pub const G_LEDGER: u32 = 8; // C03
pub const G_LIFE: u32 = 16; // C04
pub const G_GRID: u32 = 32; // C12
pub const G_UNCROSSED: u32 = 64; // C02 second sentence (pre-state assumed uncrossed & trading)
pub const G_NOTRADE: u32 = 128; // C13: nothing trades while disabled
pub const G_CONSIST: u32 = 256; // C05: every active order is in its side queue under its own key, and nothing else is
pub const G_TIE: u32 = 512; // C05 input class: the incoming order ties (side, price, timestamp) with a resting one

/// what the operation was, for the ledger / lifecycle audits
#[derive(Clone, Copy)]
pub struct OpInfo {
    /// table index of the order the operation acted on (aggressor of any trade)
    pub target: usize,
    /// volume the target carries into matching (submitted / requested volume)
    pub target_vol_in: Vol,
    /// the operation may move the target through New -> ... (placement)
    pub is_place: bool,
    /// the operation is a modify that re-queues (not a pure reduction)
    pub requeues: bool,
    /// the operation is a pure volume reduction
    pub reduces: bool,
}

/// all post-condition groups selected by `mask`; `pre` = image before, `r` = reference after,
/// `ntr0` = number of pre-existing trade records, `old` = their copies
pub fn post_checks<const N: usize, const L: usize>(b: &OrderBook<L>, pre: &Plain<N>, r: &Plain<N>, ntr0: usize, old: &[TradeRec; 2], op: &OpInfo, mask: u32) {
    let post: Plain<N> = observe::<N, L>(b);
    if mask & G_REF != 0 {
        vcheck!(table_matches(b, r), "REF.orders_equal_reference");
        vcheck!(new_trades_match(b, r, ntr0), "REF.trades_equal_reference");
        vcheck!(b.trade_vol == r.trade_vol, "REF.trade_vol_equal_reference");
    }
    if mask & G_INDEX != 0 {
        vcheck!(index_equals_reload::<N, L>(b), "INDEX.side_indexes_equal_rebuild_from_orders");
        vcheck!(queue_stamps_ok(b), "INDEX.next_queue_time_after_every_resting_key");
    }
    if mask & G_VIEWS != 0 {
        vcheck!(c02_views_ok::<N, L>(b), "VIEWS.equal_recomputation_from_orders");
    }
    if mask & G_CONSIST != 0 {
        vcheck!(index_consistent::<N, L>(b, &post), "INDEX.every_active_order_queued_under_its_own_key_and_nothing_else");
    }
    if mask & G_UNCROSSED != 0 {
        vcheck!(uncrossed(&post), "VIEWS.book_not_crossed");
    }
    if mask & G_GRID != 0 {
        let mut i = 0;
        let mut ok = true;
        while i < N {
            if i < post.n && !is_market(&post.e[i].order) {
                ok &= post.e[i].order.price % post.tick == 0;
            }
            i += 1;
        }
        vcheck!(ok, "GRID.every_limit_price_on_grid");
    }
    if mask & G_NOTRADE != 0 {
        vcheck!(b.trades.len() == ntr0, "NOTRADE.no_trade_recorded");
        vcheck!(b.trade_vol == pre.trade_vol, "NOTRADE.trade_vol_unchanged");
    }
    if mask & G_LEDGER != 0 {
        ledger_audit(b, pre, &post, ntr0, old, op);
    }
    if mask & G_LIFE != 0 {
        lifecycle_audit(pre, &post, op);
    }
}

/// C03: per-step ledger audit (telescopes over histories)
pub fn ledger_audit<const N: usize, const L: usize>(b: &OrderBook<L>, pre: &Plain<N>, post: &Plain<N>, ntr0: usize, old: &[TradeRec; 2], op: &OpInfo) {
    // (a) records already in the log never change
    let mut same = b.trades.len() >= ntr0;
    let mut k = 0;
    while k < 2 {
        if k < ntr0 && k < b.trades.len() {
            same &= trade_eq(&trade_rec(&b.trades[k]), &old[k]);
        }
        k += 1;
    }
    vcheck!(same, "LEDGER.old_records_unchanged");
    // (b) every appended record is well-formed
    let nnew = if b.trades.len() >= ntr0 { b.trades.len() - ntr0 } else { 0 };
    let mut wf = nnew <= N;
    let mut sum: u64 = 0;
    let mut lost = [0u64; N];
    let mut gained_target: u64 = 0;
    let mut k = 0;
    while k < N {
        if k < nnew {
            let tr = trade_rec(&b.trades[ntr0 + k]);
            wf &= tr.t == b.t;
            wf &= tr.vol > 0;
            wf &= tr.active == op.target;
            wf &= tr.passive < pre.n && tr.passive != tr.active;
            if tr.passive < pre.n && op.target < post.n {
                let pas = &pre.e[tr.passive].order;
                let agg = &post.e[op.target].order;
                wf &= pre.e[tr.passive].order.status == Status::Active;
                wf &= tr.price == pas.price && tr.bid_side == is_bid(pas.side);
                wf &= is_bid(pas.side) != is_bid(agg.side);
                // both limits admit the trade price (the aggressor's current limit)
                wf &= if is_bid(agg.side) { agg.price >= tr.price } else { agg.price <= tr.price };
                lost[tr.passive] += tr.vol as u64;
            }
            gained_target += tr.vol as u64;
            sum += tr.vol as u64;
        }
        k += 1;
    }
    vcheck!(wf, "LEDGER.new_records_well_formed");
    // (c) volume conservation per order
    let mut cons = true;
    let mut i = 0;
    while i < N {
        if i < post.n {
            if i == op.target {
                if op.reduces {
                    cons &= gained_target == 0;
                } else if op.is_place || op.requeues {
                    cons &= post.e[i].order.vol as u64 + gained_target == op.target_vol_in as u64;
                } else if i < pre.n {
                    cons &= post.e[i].order.vol == pre.e[i].order.vol && gained_target == 0;
                }
            } else if i < pre.n {
                cons &= post.e[i].order.vol as u64 + lost[i] == pre.e[i].order.vol as u64;
            }
        }
        i += 1;
    }
    vcheck!(cons, "LEDGER.per_order_volume_conserved");
    // (d) cumulative counter
    vcheck!(b.trade_vol as u64 == pre.trade_vol as u64 + sum, "LEDGER.trade_vol_counter_is_sum_of_log");
}

pub fn terminal(s: Status) -> bool {
    s == Status::Filled || s == Status::Cancelled || s == Status::Rejected
}

/// C04: transition relation + frame on every table entry
pub fn lifecycle_audit<const N: usize>(pre: &Plain<N>, post: &Plain<N>, op: &OpInfo) {
    let mut ok_trans = true;
    let mut ok_frame = true;
    let mut ok_times = true;
    let mut i = 0;
    while i < N {
        if i < pre.n && i < post.n {
            let a = &pre.e[i].order;
            let z = &post.e[i].order;
            let market = is_market(a);
            // one-way state machine
            let allowed = match (a.status, z.status) {
                (Status::New, Status::New) => true,
                (Status::New, Status::Active) => !market,
                (Status::New, Status::Filled) => pre.trading,
                (Status::New, Status::Cancelled) => market && pre.trading,
                (Status::New, Status::Rejected) => market && !pre.trading,
                (Status::Active, Status::Active) => true,
                (Status::Active, Status::Filled) => pre.trading,
                (Status::Active, Status::Cancelled) => true,
                (x, y) => x == y,
            };
            ok_trans &= allowed;
            // a terminal order never changes again
            if terminal(a.status) {
                ok_frame &= order_eq(a, z);
            }
            // identity never changes
            ok_frame &= z.order_id == i && a.order_id == i && is_bid(a.side) == is_bid(z.side) && a.trader_id == z.trader_id && a.start_vol == z.start_vol;
            // arrival time: set when (and only when) the order is placed
            if a.status == Status::New && z.status != Status::New {
                ok_times &= z.arr_time == post.t;
            } else {
                ok_times &= z.arr_time == a.arr_time;
            }
            // end time: set exactly on reaching a terminal status
            if !terminal(a.status) && terminal(z.status) {
                ok_times &= z.end_time == post.t;
            } else {
                ok_times &= z.end_time == a.end_time;
            }
            if !terminal(z.status) {
                ok_times &= z.end_time == Nanos::MAX;
            }
            // only the target may leave New; only the target or passive (Active) orders change at all
            if i != op.target {
                ok_trans &= a.status != Status::New || z.status == Status::New;
                ok_frame &= a.price == z.price;
            }
        } else if i >= pre.n && i < post.n {
            // an order created (and possibly placed) in this very step: dense id, clock-stamped arrival,
            // end time set iff it is already terminal, status one the kind of order can have reached
            let z = &post.e[i].order;
            let market = is_market(z);
            ok_frame &= z.order_id == i;
            ok_times &= z.arr_time == post.t;
            ok_times &= if terminal(z.status) { z.end_time == post.t } else { z.end_time == Nanos::MAX };
            ok_trans &= match z.status {
                Status::New => true,
                Status::Active => !market,
                Status::Filled => pre.trading,
                Status::Cancelled => market && pre.trading,
                Status::Rejected => market && !pre.trading,
            };
        }
        i += 1;
    }
    vcheck!(ok_trans, "LIFE.status_advances_one_way");
    vcheck!(ok_frame, "LIFE.identity_and_terminal_records_frozen");
    vcheck!(ok_times, "LIFE.arrival_and_end_times");
    vcheck!(post.n >= pre.n && post.n <= pre.n + 1, "LIFE.ids_dense");
}

/// complete observable snapshot equality (no-op clause of C04 / rejected creation of C12)
pub fn snapshot_equal<const N: usize, const L: usize>(b: &OrderBook<L>, pre: &Plain<N>, ntr0: usize, old: &[TradeRec; 2], ignore_time: bool) -> bool {
    let mut ok = b.orders.len() == pre.n && b.trades.len() == ntr0;
    let mut i = 0;
    while i < N {
        if i < pre.n && i < b.orders.len() {
            ok &= order_eq(&b.orders[i].order, &pre.e[i].order) && key_eq(&b.orders[i].key, &pre.e[i].key);
        }
        i += 1;
    }
    let mut k = 0;
    while k < 2 {
        if k < ntr0 && k < b.trades.len() {
            ok &= trade_eq(&trade_rec(&b.trades[k]), &old[k]);
        }
        k += 1;
    }
    ok &= (ignore_time || b.t == pre.t) && b.trading == pre.trading && b.tick_size == pre.tick && b.trade_vol == pre.trade_vol;
    let v: Views<L> = views::<N, L>(pre);
    ok &= views_match(b, &v);
    ok
}

/// `snapshot_equal` on the first `pre.n` entries only (a new order may have been appended)
pub fn snapshot_equal_prefix<const N: usize, const L: usize>(b: &OrderBook<L>, pre: &Plain<N>, ntr0: usize, old: &[TradeRec; 2]) -> bool {
    let mut ok = b.orders.len() >= pre.n && b.trades.len() == ntr0;
    let mut i = 0;
    while i < N {
        if i < pre.n && i < b.orders.len() {
            ok &= order_eq(&b.orders[i].order, &pre.e[i].order) && key_eq(&b.orders[i].key, &pre.e[i].key);
        }
        i += 1;
    }
    ok &= old_trades_unchanged(b, ntr0, old);
    ok &= b.t == pre.t && b.trading == pre.trading && b.tick_size == pre.tick && b.trade_vol == pre.trade_vol;
    let v: Views<L> = views::<N, L>(pre);
    ok &= views_match(b, &v);
    ok
}

/// build the book plus `ntr0` arbitrary old trade records; returns copies of those records
pub fn build_with_log<const N: usize, const L: usize>(p: &Plain<N>, ntr0: usize) -> (OrderBook<L>, [TradeRec; 2]) {
    let book = build::<N, L>(p, ntr0);
    let mut old = [TR0; 2];
    let mut k = 0;
    while k < 2 {
        if k < ntr0 {
            old[k] = trade_rec(&book.trades[k]);
        }
        k += 1;
    }
    (book, old)
}

/// assumptions on the incoming placement shared by all placement steps
pub fn assume_valid_incoming<const N: usize>(p: &Plain<N>, bid: bool, vol: Vol, price: Option<Price>, discipline: bool) {
    assume(vol >= 1);
    let (bv, av) = side_vols(p);
    assume((if bid { bv } else { av }) + vol as u64 <= u32::MAX as u64);
    assume(p.trade_vol as u64 + vol as u64 <= u32::MAX as u64);
    let _ = (price, discipline);
    // the stand-in map holds 3 entries per side: an incoming order may rest next to at most 2
    let mut same = 0usize;
    let mut j = 0;
    while j < N {
        if j < p.n && active(&p.e[j]) && is_bid(p.e[j].order.side) == bid {
            same += 1;
        }
        j += 1;
    }
    assume(same <= 2);
}

// ------------------------------------------------------------------------------------------
// steps
// ------------------------------------------------------------------------------------------

/// create_and_place_order with symbolic side / kind / price / volume on M arbitrary entries
pub fn step_place_new<const N: usize, const L: usize>(m: usize, cfg: GenCfg, mask: u32, kind: u8) {
    let p: Plain<N> = gen_plain::<N>(m, cfg);
    // kind: 0 bid limit, 1 ask limit, 2 bid market, 3 ask market, >= 4 symbolic
    let bid = match kind { 0 | 2 => true, 1 | 3 => false, _ => any_bool() };
    let market = match kind { 0 | 1 => false, 2 | 3 => true, _ => any_bool() };
    let vol = any_u32();
    let trader = any_u32();
    let price = if market { None } else { Some(g_price(cfg.wide, p.tick)) };
    assume_valid_incoming(&p, bid, vol, price, cfg.discipline && mask & G_TIE == 0);
    if mask & G_TIE != 0 {
        // C05's input class: some resting order on the same side at the same price was queued at
        // the current timestamp (the clock was not advanced in between)
        let mut tie = false;
        let mut j = 0;
        while j < N {
            if j < p.n && active(&p.e[j]) && is_bid(p.e[j].order.side) == bid && Some(p.e[j].order.price) == price && p.e[j].order.arr_time == p.t {
                tie = true;
            }
            j += 1;
        }
        assume(tie);
    }
    let (mut book, old) = build_with_log::<N, L>(&p, cfg.ntrades);
    let mut r = p;

    let got = book.create_and_place_order(mk_side(bid), vol, trader, price);
    let a = m;
    let exp = ref_create(&mut r, bid, vol, trader, price);
    ref_place(&mut r, a);

    vcheck!(exp == Some(a), "HARNESS.reference_created");
    vcheck!(match got { Ok(id) => id == a, Err(_) => false }, "LIFE.create_returns_next_dense_id");
    let op = OpInfo { target: a, target_vol_in: vol, is_place: true, requeues: false, reduces: false };
    post_checks::<N, L>(&book, &p, &r, cfg.ntrades, &old, &op, mask);
    if p.trading {
        // one vacuity witness per harness (each cover is a further solver call)
        if market {
            vcover!(r.ntr >= 2 && r.e[a].order.status == Status::Cancelled, "cover.two_fills_then_market_remainder_cancelled");
        } else {
            vcover!(r.ntr >= 2 && active(&r.e[a]), "cover.two_fills_then_remainder_rests");
        }
    } else {
        vcover!(r.e[a].order.status == Status::Rejected || active(&r.e[a]), "cover.placed_while_disabled");
    }
    core::mem::forget(book);
}

/// C12: create_order with an ARBITRARY price on an arbitrary table, tick concrete per harness.
/// Ok <=> market or price % tick == 0; a rejected creation consumes no id and changes nothing.
pub fn step_create<const N: usize, const L: usize>(m: usize, cfg: GenCfg) {
    let p: Plain<N> = gen_plain::<N>(m, cfg);
    let (mut book, old) = build_with_log::<N, L>(&p, cfg.ntrades);
    let twin = build::<N, L>(&p, 0);
    let bid = any_bool();
    let vol = any_u32();
    let trader = any_u32();
    let price = if any_bool() { Some(any_u32()) } else { None };
    let on_grid = match price {
        Some(px) => px % p.tick == 0,
        None => true,
    };
    let got = book.create_order(mk_side(bid), vol, trader, price);
    match got {
        Ok(id) => {
            vcheck!(on_grid, "GRID.off_grid_creation_is_rejected");
            vcheck!(id == m && book.orders.len() == m + 1, "LIFE.create_returns_next_dense_id");
            if book.orders.len() == m + 1 {
                let o = &book.orders[m].order;
                let want = match price {
                    Some(px) => px,
                    None => if bid { Price::MAX } else { 0 },
                };
                vcheck!(o.status == Status::New && is_bid(o.side) == bid && o.vol == vol && o.start_vol == vol && o.price == want && o.trader_id == trader && o.order_id == m && o.arr_time == p.t && o.end_time == Nanos::MAX,
                    "GRID.created_order_is_new_with_the_submitted_fields");
                vcheck!(is_market(o) || o.price % p.tick == 0, "GRID.every_limit_price_on_grid");
            }
        }
        Err(e) => {
            vcheck!(!on_grid, "GRID.on_grid_creation_is_accepted");
            vcheck!(book.orders.len() == m, "GRID.rejected_creation_consumes_no_id");
            let carries = match (e, price) {
                (OrderError::PriceError { price: ep, tick_size: et }, Some(px)) => ep == px && et == p.tick,
                _ => false,
            };
            vcheck!(carries, "GRID.error_reports_price_and_tick");
        }
    }
    vcheck!(snapshot_equal_prefix::<N, L>(&book, &p, cfg.ntrades, &old), "GRID.creation_changes_no_view_and_no_existing_record");
    vcheck!(sides_same(&book, &twin), "GRID.creation_does_not_touch_the_side_indexes");
    vcover!(price.is_some() && on_grid && price != Some(0), "cover.limit_order_created");
    vcover!(!on_grid, "cover.creation_rejected");
    core::mem::forget(book);
    core::mem::forget(twin);
}

/// C07 (core): loading a snapshot.  `try_from(OrderBookState)` is what deserialisation runs after
/// the field-by-field decode: for an arbitrary valid order table the loaded book carries every
/// scalar, every order record WITH its stored queue key and every trade unchanged, both side indexes
/// hold exactly the active orders under those keys, and every view equals the recomputation.
pub fn step_reload<const N: usize, const L: usize>(m: usize, cfg: GenCfg) {
    let p: Plain<N> = gen_plain::<N>(m, cfg);
    let (book, old) = build_with_log::<N, L>(&p, cfg.ntrades);
    let mut same = book.orders.len() == m;
    let mut i = 0;
    while i < N {
        if i < m && i < book.orders.len() {
            same &= order_eq(&book.orders[i].order, &p.e[i].order) && key_eq(&book.orders[i].key, &p.e[i].key);
        }
        i += 1;
    }
    vcheck!(same, "RELOAD.order_records_and_stored_queue_keys_preserved");
    vcheck!(book.t == p.t && book.tick_size == p.tick && book.trade_vol == p.trade_vol && book.trading == p.trading, "RELOAD.time_tick_counter_flag_preserved");
    vcheck!(book.trades.len() == cfg.ntrades && old_trades_unchanged(&book, cfg.ntrades, &old), "RELOAD.trade_log_preserved");
    vcheck!(index_consistent::<N, L>(&book, &p), "RELOAD.side_indexes_hold_exactly_the_active_orders_under_their_keys");
    vcheck!(c02_views_ok::<N, L>(&book), "RELOAD.every_view_equals_recomputation");
    vcheck!(queue_stamps_ok(&book), "RELOAD.next_queue_time_after_every_resting_key");
    let v = views::<N, 1>(&p);
    vcover!(v.bid_vol > 0 && v.ask_vol > 0, "cover.two_sided_book");
    vcover!(p.e[0].order.status == Status::New && active(&p.e[1]), "cover.unplaced_and_active_orders_present");
    core::mem::forget(book);
}

#[path = "serde_tape.rs"]
pub mod tape;

/// save -> load through the DERIVED `Serialize` / `Deserialize` implementations (skip attributes,
/// `try_from = "OrderBookState"`, field names) over a token tape instead of JSON text: the loaded
/// book equals the saved one in every scalar, record, key, trade and in both side indexes
pub fn step_serde_roundtrip<const N: usize, const L: usize>(m: usize, cfg: GenCfg) {
    use serde::{Deserialize, Serialize};
    let p: Plain<N> = gen_plain::<N>(m, cfg);
    let (book, old) = build_with_log::<N, L>(&p, cfg.ntrades);
    let mut t = tape::Tape::new();
    let saved = book.serialize(&mut tape::W(&mut t)).is_ok();
    vcheck!(saved && !t.overflow, "SNAPSHOT.saving_succeeds");
    let mut r = tape::R::new(&t);
    match OrderBook::<L>::deserialize(&mut r) {
        Ok(b2) => {
            vcheck!(r.pos == t.n, "SNAPSHOT.whole_snapshot_consumed");
            vcheck!(b2.t == book.t && b2.tick_size == book.tick_size && b2.trade_vol == book.trade_vol && b2.trading == book.trading, "SNAPSHOT.time_tick_counter_flag_round_trip");
            let mut same = b2.orders.len() == book.orders.len();
            let mut i = 0;
            while i < N {
                if i < b2.orders.len() && i < book.orders.len() {
                    same &= order_eq(&b2.orders[i].order, &book.orders[i].order) && key_eq(&b2.orders[i].key, &book.orders[i].key);
                }
                i += 1;
            }
            vcheck!(same, "SNAPSHOT.order_records_and_queue_keys_round_trip");
            vcheck!(b2.trades.len() == cfg.ntrades && old_trades_unchanged(&b2, cfg.ntrades, &old), "SNAPSHOT.trade_log_round_trips");
            vcheck!(sides_same(&b2, &book), "SNAPSHOT.side_indexes_of_the_loaded_book_equal_the_originals");
            vcheck!(queue_stamps_ok(&b2), "SNAPSHOT.next_queue_time_after_every_resting_key");
            core::mem::forget(b2);
        }
        Err(_) => {
            vcheck!(false, "SNAPSHOT.loading_a_saved_book_succeeds");
        }
    }
    vcover!(active(&p.e[0]) && !p.trading, "cover.resting_order_saved_while_trading_disabled");
    vcover!(p.e[0].order.status == Status::New, "cover.unplaced_order_saved");
    vcover!(p.e[0].order.status == Status::Rejected, "cover.rejected_order_saved");
    core::mem::forget(book);
}

/// (scalars equal, order records and keys equal, side indexes equal) of two books
pub fn books_equal<const N: usize, const L: usize>(x: &OrderBook<L>, y: &OrderBook<L>) -> (bool, bool, bool) {
    let scal = x.t == y.t && x.tick_size == y.tick_size && x.trade_vol == y.trade_vol && x.trading == y.trading && x.trades.len() == y.trades.len();
    let mut same = x.orders.len() == y.orders.len();
    let mut i = 0;
    while i < N {
        if i < x.orders.len() && i < y.orders.len() {
            same &= order_eq(&x.orders[i].order, &y.orders[i].order) && key_eq(&x.orders[i].key, &y.orders[i].key);
        }
        i += 1;
    }
    (scal, same, sides_same(x, y))
}

/// the book's next queue time lies after every resting order's (representation invariant)
pub fn queue_stamps_ok<const L: usize>(b: &OrderBook<L>) -> bool {
    let mut ok = true;
    let mut i = 0;
    while i < b.orders.len() {
        if active(&b.orders[i]) {
            ok &= b.orders[i].key.2 < b.next_queue_time;
        }
        i += 1;
    }
    ok
}

/// place_order(a) on an arbitrary existing entry (any status: includes the double-place no-op)
pub fn step_place_existing<const N: usize, const L: usize>(m: usize, cfg: GenCfg, mask: u32, only_noop: bool) {
    let p: Plain<N> = gen_plain::<N>(m, cfg);
    let a = any_usize();
    assume(a < m);
    let e = p.e[a];
    if only_noop {
        assume(e.order.status != Status::New);
    } else {
        assume(e.order.status == Status::New);
        let price = if is_market(&e.order) { None } else { Some(e.order.price) };
        assume_valid_incoming(&p, is_bid(e.order.side), e.order.vol, price, cfg.discipline);
    }
    let (mut book, old) = build_with_log::<N, L>(&p, cfg.ntrades);
    let mut r = p;
    book.place_order(a);
    ref_place(&mut r, a);
    let op = OpInfo { target: a, target_vol_in: e.order.vol, is_place: true, requeues: false, reduces: false };
    post_checks::<N, L>(&book, &p, &r, cfg.ntrades, &old, &op, mask);
    if only_noop {
        vcheck!(snapshot_equal::<N, L>(&book, &p, cfg.ntrades, &old, false), "LIFE.second_placement_is_noop");
        vcover!(active(&e), "cover.replace_active");
        vcover!(e.order.status == Status::Rejected, "cover.replace_rejected");
    } else {
        vcover!(r.e[a].order.status != Status::New && (r.ntr >= 1 || !p.trading), "cover.existing_new_order_placed");
    }
    core::mem::forget(book);
}

/// cancel_order(a) on an arbitrary existing entry (any status)
pub fn step_cancel<const N: usize, const L: usize>(m: usize, cfg: GenCfg, mask: u32) {
    let p: Plain<N> = gen_plain::<N>(m, cfg);
    let a = any_usize();
    assume(a < m);
    let (mut book, old) = build_with_log::<N, L>(&p, cfg.ntrades);
    let mut r = p;
    book.cancel_order(a);
    ref_cancel(&mut r, a);
    let op = OpInfo { target: a, target_vol_in: p.e[a].order.vol, is_place: false, requeues: false, reduces: false };
    post_checks::<N, L>(&book, &p, &r, cfg.ntrades, &old, &op, mask);
    if mask & G_LIFE != 0 && !active(&p.e[a]) {
        vcheck!(snapshot_equal::<N, L>(&book, &p, cfg.ntrades, &old, false), "LIFE.cancel_of_non_active_is_noop");
    }
    vcover!(active(&p.e[a]), "cover.cancel_active");
    vcover!(p.e[a].order.status == Status::Filled, "cover.cancel_filled");
    let o = if a == 0 { 1 } else { 0 };
    vcover!(active(&p.e[a]) && active(&p.e[o]) && is_bid(p.e[a].order.side) == is_bid(p.e[o].order.side) && p.e[a].order.price == p.e[o].order.price, "cover.cancel_one_of_two_at_level");
    core::mem::forget(book);
}

/// modify_order(a, np, nv) on an arbitrary existing entry (any status), all four option shapes
pub fn step_modify<const N: usize, const L: usize>(m: usize, cfg: GenCfg, mask: u32, shape: u8, offgrid_ok: bool) {
    let p: Plain<N> = gen_plain::<N>(m, cfg);
    let a = any_usize();
    assume(a < m);
    let e = p.e[a];
    // shape: 0 = any, 1 = (None, Some v) only, 2 = price given
    let has_p = match shape { 1 => false, 2 => true, _ => any_bool() };
    let has_v = match shape { 1 => true, _ => any_bool() };
    let np = if has_p {
        if offgrid_ok {
            let x = any_u32();
            assume(x > 0 && x < Price::MAX);
            Some(x)
        } else {
            Some(g_price(cfg.wide, p.tick))
        }
    } else {
        None
    };
    let nv = if has_v {
        let v = any_u32();
        assume(v >= 1);
        Some(v)
    } else {
        None
    };
    let new_p = np.unwrap_or(e.order.price);
    let new_v = nv.unwrap_or(e.order.vol);
    let reduces = active(&e) && np.is_none() && nv.is_some() && new_v < e.order.vol;
    let requeues = active(&e) && !reduces && (np.is_some() || nv.is_some());
    if requeues {
        // valid histories: resting volume bound
        let (bv, av) = side_vols(&p);
        let bid = is_bid(e.order.side);
        assume((if bid { bv } else { av }) - e.order.vol as u64 + new_v as u64 <= u32::MAX as u64);
        assume(p.trade_vol as u64 + new_v as u64 <= u32::MAX as u64);
    }
    let (mut book, old) = build_with_log::<N, L>(&p, cfg.ntrades);
    let mut r = p;
    book.modify_order(a, np, nv);
    ref_modify(&mut r, a, np, nv);
    let op = OpInfo { target: a, target_vol_in: new_v, is_place: false, requeues, reduces };
    post_checks::<N, L>(&book, &p, &r, cfg.ntrades, &old, &op, mask);
    if mask & G_REF != 0 && reduces {
        // keeps its place: queue key untouched, nothing but the volume changed
        vcheck!(key_eq(&book.orders[a].key, &e.key), "MODIFY.pure_reduction_keeps_queue_key");
        vcheck!(book.orders[a].order.vol == new_v && book.orders[a].order.price == e.order.price, "MODIFY.pure_reduction_changes_only_volume");
    }
    if mask & G_REF != 0 && requeues {
        let z = &book.orders[a].order;
        vcheck!(z.order_id == e.order.order_id && is_bid(z.side) == is_bid(e.order.side) && z.trader_id == e.order.trader_id && z.arr_time == e.order.arr_time && z.start_vol == e.order.start_vol, "MODIFY.keeps_id_side_trader_arrival_start_vol");
        if active(&book.orders[a]) {
            let mut behind = true;
            let mut j = 0;
            while j < N {
                if j < book.orders.len() && j != a && active(&book.orders[j]) && is_bid(book.orders[j].order.side) == is_bid(z.side) && book.orders[j].order.price == z.price {
                    behind &= book.orders[j].key.2 < book.orders[a].key.2;
                }
                j += 1;
            }
            vcheck!(behind, "MODIFY.requeued_behind_every_order_already_at_that_price");
        }
    }
    if mask & (G_LIFE | G_REF) != 0 && (!active(&e) || (np.is_none() && nv.is_none())) {
        vcheck!(snapshot_equal::<N, L>(&book, &p, cfg.ntrades, &old, false), "MODIFY.noop_when_not_active_or_nothing_to_change");
    }
    vcover!(reduces, "cover.pure_reduction");
    vcover!(requeues && r.ntr >= 1, "cover.modify_trades");
    vcover!(requeues && r.ntr == 0 && np.is_none() && nv == Some(e.order.vol), "cover.equal_volume_requeues");
    vcover!(requeues && r.ntr >= 1 && active(&r.e[a]), "cover.repriced_partially_executes_then_rests");
    vcover!(!active(&e), "cover.modify_non_active");
    core::mem::forget(book);
}

/// set_time / toggles / reset_trade_vol: frames
pub fn step_admin<const N: usize, const L: usize>(m: usize, cfg: GenCfg) {
    let p: Plain<N> = gen_plain::<N>(m, cfg);
    let (mut book, old) = build_with_log::<N, L>(&p, cfg.ntrades);
    let which = any_u8();
    assume(which < 4);
    let mut exp = p;
    match which {
        0 => {
            let t2 = any_u64();
            assume(t2 >= p.t);
            book.set_time(t2);
            exp.t = t2;
            vcheck!(book.get_time() == t2, "ADMIN.set_time_sets_clock");
        }
        1 => {
            book.enable_trading();
            exp.trading = true;
        }
        2 => {
            book.disable_trading();
            exp.trading = false;
        }
        _ => {
            book.reset_trade_vol();
            exp.trade_vol = 0;
            vcheck!(book.get_trade_vol() == 0, "ADMIN.reset_zeroes_counter");
        }
    }
    vcheck!(snapshot_equal::<N, L>(&book, &exp, cfg.ntrades, &old, false), "ADMIN.changes_nothing_else");
    vcheck!(index_equals_reload::<N, L>(&book), "INDEX.side_indexes_equal_rebuild_from_orders");
    vcheck!(queue_stamps_ok(&book), "INDEX.next_queue_time_after_every_resting_key");
    vcover!(which == 0, "cover.set_time");
    vcover!(which == 3 && p.trade_vol > 0, "cover.reset_nonzero");
    core::mem::forget(book);
}

/// process_event dispatch == the corresponding direct call (trading off keeps it cheap; the three
/// callee bodies are verified by the other steps)
pub fn step_event<const N: usize, const L: usize>(m: usize, cfg: GenCfg) {
    let p: Plain<N> = gen_plain::<N>(m, cfg);
    let a = any_usize();
    assume(a < m);
    let (mut book, old) = build_with_log::<N, L>(&p, cfg.ntrades);
    let mut r = p;
    let which = any_u8();
    assume(which < 3);
    match which {
        0 => {
            let e = p.e[a];
            if e.order.status == Status::New {
                let price = if is_market(&e.order) { None } else { Some(e.order.price) };
                assume_valid_incoming(&p, is_bid(e.order.side), e.order.vol, price, cfg.discipline);
            }
            book.process_event(Event::New { order_id: a });
            ref_place(&mut r, a);
        }
        1 => {
            book.process_event(Event::Cancellation { order_id: a });
            ref_cancel(&mut r, a);
        }
        _ => {
            let nv = any_u32();
            assume(nv >= 1 && nv < p.e[a].order.vol);
            book.process_event(Event::Modify { order_id: a, new_price: None, new_vol: Some(nv) });
            ref_modify(&mut r, a, None, Some(nv));
        }
    }
    let op = OpInfo { target: a, target_vol_in: p.e[a].order.vol, is_place: which == 0, requeues: false, reduces: which == 2 };
    post_checks::<N, L>(&book, &p, &r, cfg.ntrades, &old, &op, G_REF | G_INDEX);
    vcover!(which == 0 && p.e[a].order.status == Status::New, "cover.event_new");
    vcover!(which == 1 && active(&p.e[a]), "cover.event_cancel");
    vcover!(which == 2 && active(&p.e[a]), "cover.event_modify");
    core::mem::forget(book);
}

pub const SYMTICK: GenCfg = GenCfg { sym_tick: true, ..CFG };
pub const LOG1: GenCfg = GenCfg { ntrades: 1, ..CFG };
pub const OFF: GenCfg = GenCfg { trading: Some(false), ..CFG };
pub const ON: GenCfg = GenCfg { trading: Some(true), ..CFG };
pub const ON_UNCROSSED: GenCfg = GenCfg { trading: Some(true), uncrossed: true, ..CFG };

/// C02: mid-price == value recomputed from the order list; `crossed` selects the input class of
/// the known finding C02.mid_price_crossed (states only reachable after trading was disabled)
pub fn step_mid_price<const N: usize, const L: usize>(m: usize, crossed: bool) {
    let p: Plain<N> = gen_plain::<N>(m, GenCfg { sym_tick: true, ..CFG });
    let v = views::<N, 1>(&p);
    let is_crossed = v.bid_vol > 0 && v.ask_vol > 0 && v.bid > v.ask;
    assume(is_crossed == crossed);
    let book = build::<N, L>(&p, 0);
    let mid = book.mid_price();
    let expect = (v.bid as f64 + v.ask as f64) / 2.0;
    vcheck!(mid == expect, "VIEWS.mid_price_equals_recomputation");
    vcover!(v.bid_vol > 0 && v.ask_vol > 0, "cover.two_sided_book");
    core::mem::forget(book);
}

vharnesses! {
    #[cfg_attr(kani, kani::unwind(4))]
    fn c02_mid_price_m2() { step_mid_price::<3, 2>(2, false) }
    #[cfg_attr(kani, kani::unwind(4))]
    fn c02_mid_price_crossed() { step_mid_price::<3, 2>(2, true) }
    // ---- C01: records / trades / counter / indexes equal the reference engine
    #[cfg_attr(kani, kani::unwind(4))]
    fn c01_place_bid_limit_m2() { step_place_new::<3, 2>(2, CFG, G_REF | G_INDEX, 0) }
    #[cfg_attr(kani, kani::unwind(4))]
    fn c01_place_ask_limit_m2() { step_place_new::<3, 2>(2, CFG, G_REF | G_INDEX, 1) }
    #[cfg_attr(kani, kani::unwind(4))]
    fn c01_place_bid_market_m2() { step_place_new::<3, 2>(2, CFG, G_REF | G_INDEX, 2) }
    #[cfg_attr(kani, kani::unwind(4))]
    fn c01_place_ask_market_m2() { step_place_new::<3, 2>(2, CFG, G_REF | G_INDEX, 3) }
    #[cfg_attr(kani, kani::unwind(4))]
    fn c01_cancel_m2() { step_cancel::<3, 2>(2, CFG, G_REF | G_INDEX) }
    #[cfg_attr(kani, kani::unwind(4))]
    fn c01_event_dispatch_m2() { step_event::<3, 2>(2, OFF) }
    #[cfg_attr(kani, kani::unwind(4))]
    fn c01_admin_m2() { step_admin::<3, 2>(2, LOG1) }
    #[cfg_attr(kani, kani::unwind(4))]
    fn c01_place_existing_off_m2() { step_place_existing::<3, 2>(2, OFF, G_REF | G_INDEX, false) }

    // ---- C02: every view == recomputation from the order list; never crossed while trading
    #[cfg_attr(kani, kani::unwind(4))]
    fn c02_place_bid_limit_m2() { step_place_new::<3, 2>(2, CFG, G_VIEWS | G_INDEX, 0) }
    #[cfg_attr(kani, kani::unwind(4))]
    fn c02_place_ask_limit_m2() { step_place_new::<3, 2>(2, CFG, G_VIEWS | G_INDEX, 1) }
    #[cfg_attr(kani, kani::unwind(4))]
    fn c02_place_bid_market_m2() { step_place_new::<3, 2>(2, CFG, G_VIEWS | G_INDEX, 2) }
    #[cfg_attr(kani, kani::unwind(4))]
    fn c02_place_ask_market_m2() { step_place_new::<3, 2>(2, CFG, G_VIEWS | G_INDEX, 3) }
    #[cfg_attr(kani, kani::unwind(4))]
    fn c02_cancel_m2() { step_cancel::<3, 2>(2, CFG, G_VIEWS | G_INDEX) }
    #[cfg_attr(kani, kani::unwind(4))]
    fn c02_modify_m2() { step_modify::<3, 2>(2, CFG, G_VIEWS | G_INDEX, 0, false) }
    #[cfg_attr(kani, kani::unwind(4))]
    fn c02_modify_volume_only_m2() { step_modify::<3, 2>(2, CFG, G_VIEWS | G_INDEX, 1, false) }
    #[cfg_attr(kani, kani::unwind(4))]
    fn c02_modify_with_price_m2() { step_modify::<3, 2>(2, CFG, G_VIEWS | G_INDEX, 2, false) }
    #[cfg_attr(kani, kani::unwind(4))]
    fn c02_uncrossed_place_limit_m2() { step_place_new::<3, 2>(2, ON_UNCROSSED, G_UNCROSSED, 4) }
    #[cfg_attr(kani, kani::unwind(4))]
    fn c02_uncrossed_modify_m2() { step_modify::<3, 2>(2, ON_UNCROSSED, G_UNCROSSED, 0, false) }

    // ---- C03: ledger audit
    #[cfg_attr(kani, kani::unwind(4))]
    fn c03_place_bid_limit_m2() { step_place_new::<3, 2>(2, LOG1, G_LEDGER, 0) }
    #[cfg_attr(kani, kani::unwind(4))]
    fn c03_place_ask_limit_m2() { step_place_new::<3, 2>(2, LOG1, G_LEDGER, 1) }
    #[cfg_attr(kani, kani::unwind(4))]
    fn c03_place_bid_market_m2() { step_place_new::<3, 2>(2, LOG1, G_LEDGER, 2) }
    #[cfg_attr(kani, kani::unwind(4))]
    fn c03_place_ask_market_m2() { step_place_new::<3, 2>(2, LOG1, G_LEDGER, 3) }
    #[cfg_attr(kani, kani::unwind(4))]
    fn c03_modify_m2() { step_modify::<3, 2>(2, LOG1, G_LEDGER, 0, false) }
    #[cfg_attr(kani, kani::unwind(4))]
    fn c03_cancel_m2() { step_cancel::<3, 2>(2, LOG1, G_LEDGER) }

    // ---- C04: lifecycle
    #[cfg_attr(kani, kani::unwind(4))]
    fn c04_place_bid_limit_m2() { step_place_new::<3, 2>(2, CFG, G_LIFE, 0) }
    #[cfg_attr(kani, kani::unwind(4))]
    fn c04_place_ask_limit_m2() { step_place_new::<3, 2>(2, CFG, G_LIFE, 1) }
    #[cfg_attr(kani, kani::unwind(4))]
    fn c04_place_bid_market_m2() { step_place_new::<3, 2>(2, CFG, G_LIFE, 2) }
    #[cfg_attr(kani, kani::unwind(4))]
    fn c04_place_ask_market_m2() { step_place_new::<3, 2>(2, CFG, G_LIFE, 3) }
    #[cfg_attr(kani, kani::unwind(4))]
    fn c04_cancel_m2() { step_cancel::<3, 2>(2, LOG1, G_LIFE) }
    #[cfg_attr(kani, kani::unwind(4))]
    fn c04_modify_m2() { step_modify::<3, 2>(2, LOG1, G_LIFE, 0, false) }
    #[cfg_attr(kani, kani::unwind(4))]
    fn c04_second_placement_noop_m2() { step_place_existing::<3, 2>(2, LOG1, 0, true) }
    #[cfg_attr(kani, kani::unwind(4))]
    fn c04_admin_m2() { step_admin::<3, 2>(2, LOG1) }

    // ---- C06: modification semantics vs reference
    #[cfg_attr(kani, kani::unwind(4))]
    fn c06_modify_volume_only_m2() { step_modify::<3, 2>(2, CFG, G_REF | G_INDEX, 1, false) }
    #[cfg_attr(kani, kani::unwind(4))]
    fn c06_modify_with_price_m2() { step_modify::<3, 2>(2, CFG, G_REF | G_INDEX, 2, false) }
    #[cfg_attr(kani, kani::unwind(4))]
    fn c06_modify_any_off_m2() { step_modify::<3, 2>(2, OFF, G_REF | G_INDEX, 0, false) }

    // ---- C13: trading disabled
    #[cfg_attr(kani, kani::unwind(4))]
    fn c13_place_disabled_m2() { step_place_new::<3, 2>(2, OFF, G_REF | G_INDEX | G_NOTRADE, 4) }
    #[cfg_attr(kani, kani::unwind(4))]
    fn c13_modify_disabled_m2() { step_modify::<3, 2>(2, OFF, G_REF | G_INDEX | G_NOTRADE, 0, false) }
    #[cfg_attr(kani, kani::unwind(4))]
    fn c13_cancel_disabled_m2() { step_cancel::<3, 2>(2, OFF, G_REF | G_NOTRADE) }
    #[cfg_attr(kani, kani::unwind(4))]
    fn c13_admin_m2() { step_admin::<3, 2>(2, LOG1) }
    // after re-enabling: the pre-state may be crossed (no uncrossed assumption anywhere in C01's
    // harnesses either); matching by the usual rules == reference
    #[cfg_attr(kani, kani::unwind(4))]
    fn c13_place_bid_limit_enabled_m2() { step_place_new::<3, 2>(2, ON, G_REF, 0) }
    #[cfg_attr(kani, kani::unwind(4))]
    fn c13_place_ask_limit_enabled_m2() { step_place_new::<3, 2>(2, ON, G_REF, 1) }

    // ---- C12: grid (ticks enumerated: a remainder by a symbolic tick is out of CBMC's reach)
    #[cfg_attr(kani, kani::unwind(4))]
    fn c12_create_tick1_m2() { step_create::<3, 2>(2, GenCfg { tick: 1, ..LOG1 }) }
    #[cfg_attr(kani, kani::unwind(4))]
    fn c12_create_tick2_m2() { step_create::<3, 2>(2, GenCfg { tick: 2, ..LOG1 }) }
    #[cfg_attr(kani, kani::unwind(4))]
    fn c12_create_tick3_m2() { step_create::<3, 2>(2, GenCfg { tick: 3, ..LOG1 }) }
    #[cfg_attr(kani, kani::unwind(4))]
    fn c12_create_tick4_m2() { step_create::<3, 2>(2, GenCfg { tick: 4, ..LOG1 }) }
    #[cfg_attr(kani, kani::unwind(4))]
    fn c12_create_tick5_m2() { step_create::<3, 2>(2, GenCfg { tick: 5, ..LOG1 }) }
    #[cfg_attr(kani, kani::unwind(4))]
    fn c12_create_tick6_m2() { step_create::<3, 2>(2, GenCfg { tick: 6, ..LOG1 }) }
    #[cfg_attr(kani, kani::unwind(4))]
    fn c12_create_tick7_m2() { step_create::<3, 2>(2, GenCfg { tick: 7, ..LOG1 }) }
    #[cfg_attr(kani, kani::unwind(4))]
    fn c12_create_tick8_m2() { step_create::<3, 2>(2, GenCfg { tick: 8, ..LOG1 }) }
    #[cfg_attr(kani, kani::unwind(4))]
    fn c12_create_tick9_m2() { step_create::<3, 2>(2, GenCfg { tick: 9, ..LOG1 }) }
    #[cfg_attr(kani, kani::unwind(4))]
    fn c12_create_tick10_m2() { step_create::<3, 2>(2, GenCfg { tick: 10, ..LOG1 }) }
    // the grid invariant is preserved by placements and by modifications to on-grid prices
    #[cfg_attr(kani, kani::unwind(4))]
    fn c12_grid_place_tick3_off_m2() { step_place_new::<3, 2>(2, GenCfg { tick: 3, ..OFF }, G_GRID | G_VIEWS, 4) }
    #[cfg_attr(kani, kani::unwind(4))]
    fn c12_grid_modify_ongrid_tick3_m2() { step_modify::<3, 2>(2, GenCfg { tick: 3, ..CFG }, G_GRID | G_VIEWS, 0, false) }
    #[cfg_attr(kani, kani::unwind(4))]
    fn c12_grid_modify_price_tick3_off_m2() { step_modify::<3, 2>(2, GenCfg { tick: 3, ..OFF }, G_GRID | G_VIEWS, 2, false) }
    // modify_order with an ARBITRARY new price (isolates the finding C12.modify_offgrid_price)
    #[cfg_attr(kani, kani::unwind(4))]
    fn c12_modify_any_price_tick3_m2() { step_modify::<3, 2>(2, GenCfg { tick: 3, ..OFF }, G_GRID, 2, true) }
    // ticks that do NOT divide 2^32-1 (= 3*5*17*257*65537): a bid's queue key stores MAX - price, which is then off the grid
    #[cfg_attr(kani, kani::unwind(4))]
    fn c12_modify_any_price_tick2_m2() { step_modify::<3, 2>(2, GenCfg { tick: 2, ..OFF }, G_GRID, 2, true) }
    #[cfg_attr(kani, kani::unwind(4))]
    fn c12_modify_any_price_tick8_m2() { step_modify::<3, 2>(2, GenCfg { tick: 8, ..OFF }, G_GRID, 2, true) }
    #[cfg_attr(kani, kani::unwind(4))]
    fn c12_modify_any_price_tick10_m2() { step_modify::<3, 2>(2, GenCfg { tick: 10, ..OFF }, G_GRID, 2, true) }
    #[cfg_attr(kani, kani::unwind(4))]
    fn c12_modify_any_price_tick7_on_m2() { step_modify::<3, 2>(2, GenCfg { tick: 7, ..CFG }, G_GRID, 0, true) }

    // ---- thorough tier: 3-entry tables (<= 3 resting orders per side)
    #[cfg_attr(kani, kani::unwind(5))]
    fn c01_place_bid_limit_m3() { step_place_new::<4, 2>(3, CFG, G_REF | G_INDEX, 0) }
    #[cfg_attr(kani, kani::unwind(5))]
    fn c01_place_ask_limit_m3() { step_place_new::<4, 2>(3, CFG, G_REF | G_INDEX, 1) }
    #[cfg_attr(kani, kani::unwind(5))]
    fn c01_place_bid_market_m3() { step_place_new::<4, 2>(3, CFG, G_REF | G_INDEX, 2) }
    #[cfg_attr(kani, kani::unwind(5))]
    fn c01_place_ask_market_m3() { step_place_new::<4, 2>(3, CFG, G_REF | G_INDEX, 3) }
    #[cfg_attr(kani, kani::unwind(5))]
    fn c01_cancel_m3() { step_cancel::<4, 2>(3, CFG, G_REF | G_INDEX | G_VIEWS) }
    #[cfg_attr(kani, kani::unwind(5))]
    fn c06_modify_with_price_m3() { step_modify::<4, 2>(3, CFG, G_REF | G_INDEX, 2, false) }
    #[cfg_attr(kani, kani::unwind(5))]
    fn c02_place_bid_limit_l3_m2() { step_place_new::<3, 3>(2, CFG, G_VIEWS | G_INDEX, 0) }

    // ---- C07: loading a snapshot (try_from) on an arbitrary order table
    #[cfg_attr(kani, kani::unwind(4))]
    fn c07_reload_m2() { step_reload::<3, 2>(2, LOG1) }
    #[cfg_attr(kani, kani::unwind(5))]
    fn c07_reload_m3() { step_reload::<4, 2>(3, LOG1) }

    #[cfg_attr(kani, kani::unwind(18))]
    fn c07_serde_roundtrip_m1() { step_serde_roundtrip::<2, 2>(1, LOG1) }


    // ---- C05: ties (same side, price, timestamp)
    #[cfg_attr(kani, kani::unwind(4))]
    fn c05_place_bid_limit_tie_m2() { step_place_new::<3, 2>(2, CFG, G_TIE | G_CONSIST | G_VIEWS, 0) }
    #[cfg_attr(kani, kani::unwind(4))]
    fn c05_place_ask_limit_tie_m2() { step_place_new::<3, 2>(2, CFG, G_TIE | G_CONSIST | G_VIEWS, 1) }
}
