//! Hooked into `rust/src/order_book.rs` (child module: wraps a core book directly).  C18: the
//! Python `OrderBook` class is a transparent view of the Rust core.
#![allow(dead_code)]
#![allow(clippy::all)]
#![cfg(kani)]
use super::*;
use crate::types::{cast_order, cast_trade};
use bourse_book::types::{Order, Status, Trade};
use bourse_book::verif::book::*;
use bourse_book::verif::src::*;
use bourse_book::{vcheck, vcover};

/// stand-in for the lazy construction of a Python exception object (reaching the real one is a
/// Kani internal compiler error): the path simply ends here
pub fn stub_new_err<A: pyo3::PyErrArguments + Send + Sync + 'static>(_args: A) -> PyErr {
    kani::assume(false);
    loop {}
}

pub fn code_of(s: Status) -> u8 {
    match s {
        Status::New => 0,
        Status::Active => 1,
        Status::Filled => 2,
        Status::Cancelled => 3,
        Status::Rejected => 4,
    }
}

/// every scalar getter of the wrapper returns what the core returns, statuses as documented codes
#[kani::proof]
#[kani::unwind(4)]
pub fn c18_orderbook_getters() {
    let p: Plain<3> = gen_plain::<3>(2, CFG);
    let w = OrderBook(build::<3, 10>(&p, 0));
    let core = build::<3, 10>(&p, 0);
    vcheck!(w.bid_vol() == core.bid_vol() && w.ask_vol() == core.ask_vol(), "PY.total_volumes_are_the_cores");
    vcheck!(w.best_bid_vol() == core.bid_best_vol() && w.best_ask_vol() == core.ask_best_vol(), "PY.touch_volumes_are_the_cores_bid_for_bid_ask_for_ask");
    vcheck!(w.best_bid_vol_and_orders() == core.bid_best_vol_and_orders() && w.best_ask_vol_and_orders() == core.ask_best_vol_and_orders(), "PY.touch_volume_and_count_are_the_cores");
    vcheck!(w.bid_ask() == core.bid_ask(), "PY.bid_ask_is_the_cores");
    let id = any_usize();
    assume(id < 2);
    vcheck!(w.order_status(id) == code_of(entry_order(&p.e[id]).status), "PY.status_codes_0_new_1_active_2_filled_3_cancelled_4_rejected");
    vcover!(w.order_status(id) == 4, "cover.rejected_order");
    vcover!(w.best_bid_vol() != w.best_ask_vol(), "cover.asymmetric_book");
    core::mem::forget(w);
    core::mem::forget(core);
}

/// every mutating method forwards its arguments unchanged to the core (sides as True = bid)
#[kani::proof]
#[kani::unwind(4)]
#[kani::stub(pyo3::exceptions::PyValueError::new_err, stub_new_err)]
pub fn c18_orderbook_operations_off() {
    let p: Plain<3> = gen_plain::<3>(2, OFF);
    let mut w = OrderBook(build::<3, 10>(&p, 0));
    let mut r = p;
    let which = any_u8();
    assume(which < 6);
    let id = any_usize();
    assume(id < 2);
    match which {
        0 => {
            let t2 = any_u64();
            w.set_time(t2);
            r.t = t2;
        }
        1 => {
            w.enable_trading();
            r.trading = true;
        }
        2 => {
            w.disable_trading();
            r.trading = false;
        }
        3 => {
            w.cancel_order(id);
            ref_cancel(&mut r, id);
        }
        4 => {
            // every option shape: pure reductions, same-volume and larger-volume re-queues, re-pricing
            // (a restated current price included: the core re-queues on ANY given price)
            let e = p.e[id];
            let eo = entry_order(&e);
            let np = if any_bool() { Some(g_price(true, 1)) } else { None };
            let nv = if any_bool() {
                let v = any_u32();
                assume(v >= 1);
                Some(v)
            } else {
                None
            };
            let new_v = nv.unwrap_or(eo.vol);
            let reduces = active(&e) && np.is_none() && nv.is_some() && new_v < eo.vol;
            if active(&e) && !reduces {
                let (bv, av) = side_vols(&p);
                assume((if is_bid(eo.side) { bv } else { av }) - eo.vol as u64 + new_v as u64 <= u32::MAX as u64);
            }
            w.modify_order(id, np, nv);
            ref_modify(&mut r, id, np, nv);
            vcover!(active(&e) && np == Some(eo.price) && nv.is_none(), "cover.modify_restates_the_current_price");
            vcover!(reduces, "cover.pure_reduction");
        }
        _ => {
            let bid = any_bool();
            let vol = any_u32();
            let trader = any_u32();
            let price = if any_bool() { Some(g_price(true, 1)) } else { None };
            assume_valid_incoming(&p, bid, vol, price, false);
            let got = w.place_order(bid, vol, trader, price);
            let exp = ref_create(&mut r, bid, vol, trader, price);
            ref_place(&mut r, 2);
            let same_id = match (&got, exp) {
                (Ok(g), Some(e)) => *g == e,
                _ => false,
            };
            // (no drop glue for the Python error object: reaching pyo3's reference-count pool is a Kani ICE)
            core::mem::forget(got);
            vcheck!(same_id, "PY.place_order_returns_the_cores_id");
        }
    }
    vcheck!(table_matches(&w.0, &r), "PY.wrapper_state_equals_core_driven_by_the_same_call");
    vcheck!(w.0.get_trade_vol() == r.trade_vol && w.0.get_trades().len() == 0, "PY.no_trade_while_disabled");
    vcover!(which == 5 && r.n == 3 && entry_order(&r.e[2]).status == Status::Active && is_bid(entry_order(&r.e[2]).side), "cover.bid_placed_through_the_wrapper");
    core::mem::forget(w);
}

/// record casts: tuple position k holds the documented field k
#[kani::proof]
pub fn c18_record_casts() {
    let st = any_u8();
    assume(st < 5);
    let status = match st {
        0 => Status::New,
        1 => Status::Active,
        2 => Status::Filled,
        3 => Status::Cancelled,
        _ => Status::Rejected,
    };
    let bid = any_bool();
    let o = Order { side: mk_side(bid), status, arr_time: any_u64(), end_time: any_u64(), vol: any_u32(), start_vol: any_u32(), price: any_u32(), trader_id: any_u32(), order_id: any_usize() };
    let t = cast_order(&o);
    vcheck!(t.0 == bid && t.1 == st && t.2 == o.arr_time && t.3 == o.end_time && t.4 == o.vol && t.5 == o.start_vol && t.6 == o.price && t.7 == o.trader_id && t.8 == o.order_id,
        "PY.order_tuple_is_side_status_arrival_end_volume_start_volume_price_trader_id");
    let tr = Trade { t: any_u64(), side: mk_side(bid), price: any_u32(), vol: any_u32(), active_order_id: any_usize(), passive_order_id: any_usize() };
    let u = cast_trade(&tr);
    vcheck!(u.0 == tr.t && u.1 == bid && u.2 == tr.price && u.3 == tr.vol && u.4 == tr.active_order_id && u.5 == tr.passive_order_id, "PY.trade_tuple_is_time_side_price_volume_active_passive");
    vcover!(t.1 == 4 && !t.0, "cover.rejected_ask");
}

/// stand-ins for the error path of `place_order`: message formatting (`OrderError::to_string`, i.e.
/// `core::fmt::write` over symbolic integers - out of CBMC's reach) produces an empty message, and
/// the lazy construction of the Python exception object is counted and yields an inert value
pub fn stub_fmt_write(_out: &mut dyn core::fmt::Write, _args: core::fmt::Arguments<'_>) -> core::fmt::Result {
    Ok(())
}
pub static mut ERRS_BUILT: usize = 0;
pub fn stub_new_err_counted<A: pyo3::PyErrArguments + Send + Sync + 'static>(args: A) -> PyErr {
    unsafe {
        ERRS_BUILT += 1;
    }
    core::mem::forget(args);
    unsafe { core::mem::zeroed() }
}

/// C18: an off-grid price makes `place_order` raise (exactly one ValueError is built) and leaves the
/// wrapped book exactly as it was; an on-grid price or a market order is forwarded as before
#[kani::proof]
#[kani::unwind(4)]
#[kani::stub(pyo3::exceptions::PyValueError::new_err, stub_new_err_counted)]
#[kani::stub(core::fmt::write, stub_fmt_write)]
pub fn c18_orderbook_place_any_price_tick3_off() {
    let p: Plain<3> = gen_plain::<3>(2, GenCfg { tick: 3, ..OFF });
    let mut w = OrderBook(build::<3, 10>(&p, 0));
    let mut r = p;
    let bid = any_bool();
    let vol = any_u32();
    let trader = any_u32();
    let price = if any_bool() { Some(any_u32()) } else { None };
    assume_valid_incoming(&p, bid, vol, price, false);
    if let Some(x) = price {
        assume(x > 0 && x < Price::MAX);
    }
    let on_grid = match price {
        Some(x) => x % 3 == 0,
        None => true,
    };
    let got = w.place_order(bid, vol, trader, price);
    let built = unsafe { ERRS_BUILT };
    if on_grid {
        let exp = ref_create(&mut r, bid, vol, trader, price);
        ref_place(&mut r, 2);
        let same_id = match (&got, exp) {
            (Ok(g), Some(e)) => *g == e,
            _ => false,
        };
        vcheck!(same_id && built == 0, "PY.place_order_returns_the_cores_id");
    } else {
        vcheck!(got.is_err() && built == 1, "PY.off_grid_price_raises_one_value_error");
    }
    core::mem::forget(got);
    vcheck!(table_matches(&w.0, &r), "PY.wrapper_state_equals_core_driven_by_the_same_call_and_is_unchanged_after_an_error");
    vcover!(!on_grid, "cover.off_grid_price_rejected");
    vcover!(on_grid && price.is_some(), "cover.on_grid_limit_order_placed");
    core::mem::forget(w);
}
