#![allow(dead_code)]
