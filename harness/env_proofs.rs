//! Hooked into `crates/step_sim/src/env.rs` (child module: sees `Env`'s private fields).
//!
//! One `Env::step` from an arbitrary environment state with a symbolic generator (C08, C10, C11,
//! C05's over-full step) and the submission API (C10, C12).
#![allow(dead_code)]
#![allow(clippy::all)]
use super::*;
use crate::verif::*;
use bourse_book::verif::book::*;
#[allow(unused_imports)]
use bourse_book::verif::src::*;
use bourse_book::{vcheck, vcover, vharnesses};
use rand::seq::SliceRandom;

impl<const L: usize> Env<L> {
    /// assemble an environment around a given book (harness constructor; the cached level-2 data
    /// is what `Env::new` / `step` would have stored: the live book's)
    pub fn verif_from_book(step_size: Nanos, order_book: OrderBook<L>) -> Self {
        let level_2_data = order_book.level_2_data();
        Self { step_size, order_book, trade_vols: Vec::new(), transactions: Vec::new(), level_2_data, level_2_data_records: Level2DataRecords::new() }
    }
    /// overwrite the cached level-2 data (C19: arbitrary market data behind the arrays)
    pub fn verif_set_level_2_data(&mut self, d: Level2Data<L>) {
        self.level_2_data = d;
    }
    pub fn verif_queue_len(&self) -> usize {
        self.transactions.len()
    }
    pub fn verif_book_mut(&mut self) -> &mut OrderBook<L> {
        &mut self.order_book
    }
    pub fn verif_step_size(&self) -> Nanos {
        self.step_size
    }
}

// ------------------------------------------------------------------------------------------
// instructions
// ------------------------------------------------------------------------------------------

#[derive(Clone, Copy)]
pub struct Ev {
    /// 0 = New, 1 = Cancellation, 2 = Modify
    pub kind: u8,
    pub id: usize,
    pub np: Option<Price>,
    pub nv: Option<Vol>,
}

/// an arbitrary instruction on any of the first `n_ids` orders (any status, duplicates allowed)
pub fn gen_ev(n_ids: usize, tick: Price, kinds: u8) -> Ev {
    let kind = any_u8();
    assume(kind < kinds);
    let id = any_usize();
    assume(id < n_ids);
    let mut np = None;
    let mut nv = None;
    if kind == 2 {
        if any_bool() {
            np = Some(g_price(true, tick));
        }
        if any_bool() {
            let v = any_u32();
            assume(v >= 1);
            nv = Some(v);
        }
    }
    Ev { kind, id, np, nv }
}

pub fn to_event(e: &Ev) -> Event<OrderId> {
    match e.kind {
        0 => Event::New { order_id: e.id },
        1 => Event::Cancellation { order_id: e.id },
        _ => Event::Modify { order_id: e.id, new_price: e.np, new_vol: e.nv },
    }
}

pub fn ref_apply<const N: usize>(r: &mut Plain<N>, e: &Ev) {
    match e.kind {
        0 => ref_place(r, e.id),
        1 => ref_cancel(r, e.id),
        _ => ref_modify(r, e.id, e.np, e.nv),
    }
}

/// k arbitrary prior records in every series (equal lengths: the inductive hypothesis of C11)
pub fn gen_records<const L: usize>(env: &mut Env<L>, k: usize) -> [[u32; 4]; 2] {
    // returns the scalar part of the prior records so that the prefix can be compared afterwards
    let mut saved = [[0u32; 4]; 2];
    let mut j = 0;
    while j < k {
        let rec: Level2Data<L> = Level2Data {
            bid_price: any_u32(),
            ask_price: any_u32(),
            bid_vol: any_u32(),
            ask_vol: any_u32(),
            bid_price_levels: core::array::from_fn(|_| (any_u32(), any_u32())),
            ask_price_levels: core::array::from_fn(|_| (any_u32(), any_u32())),
        };
        if j < 2 {
            saved[j] = [rec.bid_price, rec.ask_price, rec.bid_vol, rec.ask_vol];
        }
        env.level_2_data_records.append_record(&rec);
        env.trade_vols.push(any_u32());
        j += 1;
    }
    saved
}

pub const E8: u32 = 1; // C08: batch applied exactly once each in the shuffled order at start+i
pub const E10: u32 = 2; // C10: cache == live after the step
pub const E11: u32 = 4; // C11: every series grew by one faithful record

/// every recorded series has k+1 entries and the last one equals the live book's value
pub fn records_faithful<const L: usize>(env: &Env<L>, k: usize) -> bool {
    let b = &env.order_book;
    let r = &env.level_2_data_records;
    let n = k + 1;
    let (bid, ask) = b.bid_ask();
    let bl = b.bid_levels();
    let al = b.ask_levels();
    let mut ok = r.prices.0.len() == n && r.prices.1.len() == n && r.volumes.0.len() == n && r.volumes.1.len() == n;
    ok &= env.trade_vols.len() == n;
    if !ok {
        return false;
    }
    ok &= r.prices.0[k] == bid && r.prices.1[k] == ask;
    ok &= r.volumes.0[k] == b.bid_vol() && r.volumes.1[k] == b.ask_vol();
    let mut l = 0;
    while l < L {
        ok &= r.volumes_at_levels.0[l].len() == n && r.volumes_at_levels.1[l].len() == n;
        ok &= r.orders_at_levels.0[l].len() == n && r.orders_at_levels.1[l].len() == n;
        if ok {
            ok &= r.volumes_at_levels.0[l][k] == bl[l].0 && r.orders_at_levels.0[l][k] == bl[l].1;
            ok &= r.volumes_at_levels.1[l][k] == al[l].0 && r.orders_at_levels.1[l][k] == al[l].1;
        }
        l += 1;
    }
    ok
}

pub fn l2_equal<const L: usize>(a: &Level2Data<L>, b: &Level2Data<L>) -> bool {
    let mut ok = a.bid_price == b.bid_price && a.ask_price == b.ask_price && a.bid_vol == b.bid_vol && a.ask_vol == b.ask_vol;
    let mut l = 0;
    while l < L {
        ok &= a.bid_price_levels[l] == b.bid_price_levels[l] && a.ask_price_levels[l] == b.ask_price_levels[l];
        l += 1;
    }
    ok
}

/// valid-history assumptions for a whole batch: injected volume stays < 2^32, no active order
/// carries the step's start time as queue time (batch <= step size in every earlier step)
pub fn assume_batch_valid<const N: usize>(p: &Plain<N>, evs: &[Ev], nb: usize, discipline: bool) {
    let mut total: u64 = 0;
    let mut i = 0;
    while i < N {
        if i < p.n {
            let o = entry_order(&p.e[i]);
            if o.status == Status::New || o.status == Status::Active {
                total += o.vol as u64;
            }
            if discipline && o.status == Status::Active {
                assume(entry_key_time(&p.e[i]) < p.t);
            }
        }
        i += 1;
    }
    let mut k = 0;
    while k < nb {
        if let Some(v) = evs[k].nv {
            total += v as u64;
        }
        k += 1;
    }
    assume(total <= u32::MAX as u64);
}

/// `Env::step` on an arbitrary environment: `m` table entries, `NB` queued instructions, `k` prior
/// records, symbolic generator words
pub fn step_env<const N: usize, const L: usize, const NB: usize>(m: usize, k: usize, cfg: GenCfg, mask: u32, kinds: u8) {
    let p: Plain<N> = gen_plain::<N>(m, cfg);
    assume(p.t < (1u64 << 62));
    let step_size = any_u64();
    assume(step_size >= NB as u64 && step_size < (1u64 << 62));
    let mut evs = [Ev { kind: 1, id: 0, np: None, nv: None }; NB];
    let mut i = 0;
    while i < NB {
        evs[i] = gen_ev(m, p.tick, kinds);
        i += 1;
    }
    assume_batch_valid(&p, &evs, NB, cfg.discipline);
    let (book, old) = build_with_log::<N, L>(&p, cfg.ntrades);
    let mut env: Env<L> = Env::verif_from_book(step_size, book);
    let saved = gen_records(&mut env, k);
    let mut i = 0;
    while i < NB {
        env.transactions.push(to_event(&evs[i]));
        i += 1;
    }
    let mut rng = SymRng::new();
    shuffle_words(&mut rng, NB);
    rng.strict = true;
    let mut rng2 = rng;

    env.step(&mut rng);

    // the permutation those words induce (shuffle is data independent: C15 L1)
    let mut pi = [0usize; NB];
    let mut i = 0;
    while i < NB {
        pi[i] = i;
        i += 1;
    }
    pi.shuffle(&mut rng2);
    // reference: plain replay in that order at start+i
    let mut r = p;
    r.trade_vol = 0;
    let mut i = 0;
    while i < NB {
        r.t = p.t + i as u64;
        ref_apply(&mut r, &evs[pi[i]]);
        i += 1;
    }
    r.t = p.t + step_size;

    let b = &env.order_book;
    if mask & E8 != 0 {
        vcheck!(env.transactions.is_empty(), "STEP.queue_empty_after_step");
        vcheck!(b.get_time() == p.t + step_size, "STEP.clock_at_start_plus_step_size");
        vcheck!(table_matches(b, &r), "STEP.orders_equal_plain_replay_in_shuffled_order");
        vcheck!(new_trades_match(b, &r, cfg.ntrades), "STEP.trades_equal_plain_replay");
        vcheck!(b.get_trade_vol() == r.trade_vol, "STEP.trade_vol_counts_only_this_step");
        vcheck!(old_trades_unchanged(b, cfg.ntrades, &old), "STEP.old_trades_unchanged");
        vcheck!(index_equals_reload::<N, L>(b), "INDEX.side_indexes_equal_rebuild_from_orders");
        vcheck!(rng.calls == NB - 1 && !rng.overdrawn, "STEP.draws_exactly_the_shuffle_words");
        vcheck!(env.trade_vols.len() == k + 1 && env.trade_vols[k] == r.trade_vol, "STEP.recorded_step_volume_is_this_steps");
    }
    if mask & E10 != 0 {
        vcheck!(l2_equal(&env.level_2_data, &b.level_2_data()), "CACHE.level_2_snapshot_equals_live_book_after_step");
    }
    if mask & E11 != 0 {
        vcheck!(records_faithful(&env, k), "RECORDS.one_faithful_entry_appended_to_every_series");
        let mut same = true;
        let mut j = 0;
        while j < 2 {
            if j < k {
                let r = &env.level_2_data_records;
                same &= r.prices.0[j] == saved[j][0] && r.prices.1[j] == saved[j][1] && r.volumes.0[j] == saved[j][2] && r.volumes.1[j] == saved[j][3];
            }
            j += 1;
        }
        vcheck!(same, "RECORDS.earlier_entries_unchanged");
        // per-step traded volume == sum of the trades stamped within the step
        let mut sum: u64 = 0;
        let mut q = cfg.ntrades;
        while q < b.get_trades().len() {
            let t = &b.get_trades()[q];
            if t.t >= p.t && t.t < p.t + step_size {
                sum += t.vol as u64;
            }
            q += 1;
        }
        vcheck!(env.trade_vols.len() == k + 1 && env.trade_vols[k] as u64 == sum, "RECORDS.step_volume_is_sum_of_trades_stamped_in_step");
    }
    if NB == 2 {
        vcover!(pi[0] == 1, "cover.batch_reversed");
        vcover!(pi[0] == 0 && r.ntr >= 1, "cover.batch_in_order_with_trade");
    }
    core::mem::forget(env);
}

vharnesses! {
    #[cfg_attr(kani, kani::unwind(4))]
    fn c08_env_step_b2_m2() { step_env::<3, 2, 2>(2, 0, CFG, E8, 3) }
    #[cfg_attr(kani, kani::unwind(4))]
    fn c10_env_step_cache_b2_m2() { step_env::<3, 2, 2>(2, 0, CFG, E10, 3) }
    #[cfg_attr(kani, kani::unwind(4))]
    fn c11_env_step_records_b2_m2_k1() { step_env::<3, 2, 2>(2, 1, CFG, E11, 3) }
    #[cfg_attr(kani, kani::unwind(4))]
    fn probe_v1() { step_env::<3, 2, 2>(2, 0, OFF, E8, 3) }
    #[cfg_attr(kani, kani::unwind(4))]
    fn probe_v2() { step_env::<3, 2, 2>(2, 0, ON, E8, 1) }
    #[cfg_attr(kani, kani::unwind(4))]
    fn probe_v3() { step_env::<3, 2, 2>(2, 0, ON, E8, 2) }
    #[cfg_attr(kani, kani::unwind(4))]
    fn probe_v4() { step_env::<3, 2, 2>(1, 0, CFG, E8, 3) }
}
