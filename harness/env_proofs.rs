//! Hooked into `crates/step_sim/src/env.rs` (child module: sees `Env`'s private fields).
//!
//! One `Env::step` from an arbitrary environment state with a symbolic generator (C08, C10, C11,
//! C05's over-full step) and the submission API (C10, C12).
#![allow(dead_code)]
#![allow(clippy::all)]
use super::*;
use crate::verif::*;
use bourse_book::verif::book::*;
#[allow(unused_imports)]
use bourse_book::verif::src::*;
use bourse_book::{vcheck, vcover, vharnesses};
use bourse_book::OrderError;
use rand::seq::SliceRandom;

impl<const L: usize> Env<L> {
    /// assemble an environment around a given book (harness constructor; the cached level-2 data
    /// is what `Env::new` / `step` would have stored: the live book's)
    pub fn verif_from_book(step_size: Nanos, order_book: OrderBook<L>) -> Self {
        // (through the constructor plus field assignments rather than a struct literal: a tree that
        // adds a field to `Env` must still compile with this harness)
        let level_2_data = order_book.level_2_data();
        let mut env = Self::new(0, 1, step_size, true);
        core::mem::forget(core::mem::replace(&mut env.order_book, order_book));
        core::mem::forget(core::mem::replace(&mut env.level_2_data, level_2_data));
        env
    }
    /// overwrite the cached level-2 data (C19: arbitrary market data behind the arrays)
    pub fn verif_set_level_2_data(&mut self, d: Level2Data<L>) {
        self.level_2_data = d;
    }
    pub fn verif_queue_len(&self) -> usize {
        self.transactions.len()
    }
    pub fn verif_book_mut(&mut self) -> &mut OrderBook<L> {
        &mut self.order_book
    }
    pub fn verif_step_size(&self) -> Nanos {
        self.step_size
    }
    /// every queued instruction is a cancellation of a tracked order that was active
    pub fn verif_queued_cancels_only(&self, tracked: &[OrderId], was_active: &[bool]) -> bool {
        let mut ok = true;
        let mut i = 0;
        while i < self.transactions.len() {
            ok &= match &self.transactions[i] {
                Event::Cancellation { order_id } => {
                    let mut hit = false;
                    let mut k = 0;
                    while k < tracked.len() {
                        hit |= tracked[k] == *order_id && was_active[k];
                        k += 1;
                    }
                    hit
                }
                _ => false,
            };
            i += 1;
        }
        ok
    }
    /// (kind 0 New | 1 Cancellation | 2 Modify, order id) of the i-th queued instruction
    pub fn verif_queued(&self, i: usize) -> (u8, OrderId, Option<Price>, Option<Vol>) {
        match &self.transactions[i] {
            Event::New { order_id } => (0, *order_id, None, None),
            Event::Cancellation { order_id } => (1, *order_id, None, None),
            Event::Modify { order_id, new_price, new_vol } => (2, *order_id, *new_price, *new_vol),
        }
    }
}

/// Fixed-size submission log used by whole-`update` agent harnesses in place of the environment's
/// growing vectors (a `Vec` whose length depends on the path taken is out of CBMC's reach).
#[derive(Clone, Copy)]
pub struct Placed {
    pub asset: usize,
    pub bid: bool,
    pub vol: Vol,
    pub trader: TraderId,
    pub price: Option<Price>,
}
pub const PLACED_CAP: usize = 8;
pub static mut PLACED: [Placed; PLACED_CAP] = [Placed { asset: 0, bid: false, vol: 0, trader: 0, price: None }; PLACED_CAP];
pub static mut NPLACED: usize = 0;
pub static mut NCANCELLED: usize = 0;
pub static mut CANCELLED: [OrderId; PLACED_CAP] = [0; PLACED_CAP];
pub fn placed() -> ([Placed; PLACED_CAP], usize) {
    unsafe { (PLACED, NPLACED) }
}
pub fn cancelled() -> ([OrderId; PLACED_CAP], usize) {
    unsafe { (CANCELLED, NCANCELLED) }
}

// (generic parameter named as in the crate: Kani compares stub signatures nominally)
impl<const LEVELS: usize> Env<LEVELS> {
    /// Stand-in for `Env::place_order` in whole-`update` agent harnesses (`#[kani::stub]`): applies the
    /// same tick-grid test as `OrderBook::create_order`, records the submission in a fixed-size log
    /// and returns consecutive ids.  `Env::place_order` itself is decided by C10's submission harnesses.
    pub fn verif_log_place_order(&mut self, side: Side, vol: Vol, trader_id: TraderId, price: Option<Price>) -> Result<OrderId, OrderError> {
        let tick = self.order_book.verif_tick();
        if let Some(p) = price {
            if p % tick != 0 {
                return Err(OrderError::PriceError { price: p, tick_size: tick });
            }
        }
        unsafe {
            let n = NPLACED;
            if n < PLACED_CAP {
                PLACED[n] = Placed { asset: 0, bid: matches!(side, Side::Bid), vol, trader: trader_id, price };
            }
            NPLACED = n + 1;
            Ok(n)
        }
    }
    /// Stand-in for `Env::cancel_order` in the same harnesses: records the id.
    pub fn verif_log_cancel_order(&mut self, order_id: OrderId) {
        unsafe {
            let n = NCANCELLED;
            if n < PLACED_CAP {
                CANCELLED[n] = order_id;
            }
            NCANCELLED = n + 1;
        }
    }
}

// ------------------------------------------------------------------------------------------
// instructions
// ------------------------------------------------------------------------------------------

#[derive(Clone, Copy)]
pub struct Ev {
    /// 0 = New, 1 = Cancellation, 2 = Modify
    pub kind: u8,
    pub id: usize,
    pub np: Option<Price>,
    pub nv: Option<Vol>,
}

/// what the harness fixes about one queued instruction (`ANY` = symbolic)
#[derive(Clone, Copy)]
pub struct EvSpec {
    /// 0 New | 1 Cancellation | 2 Modify | ANY
    pub kind: u8,
    /// target order id | usize::MAX = any existing id
    pub id: usize,
}
pub const ANY: u8 = 255;
pub const EV_ANY: EvSpec = EvSpec { kind: ANY, id: usize::MAX };
pub const fn ev(kind: u8, id: usize) -> EvSpec {
    EvSpec { kind, id }
}

/// an instruction on one of the first `n_ids` orders (any status, duplicates allowed)
pub fn gen_ev(n_ids: usize, tick: Price, spec: EvSpec) -> Ev {
    let kind = if spec.kind == ANY {
        let k = any_u8();
        assume(k < 3);
        k
    } else {
        spec.kind
    };
    let id = if spec.id == usize::MAX {
        let i = any_usize();
        assume(i < n_ids);
        i
    } else {
        spec.id
    };
    let mut np = None;
    let mut nv = None;
    if kind == 2 {
        if any_bool() {
            np = Some(g_price(true, tick));
        }
        if any_bool() {
            let v = any_u32();
            assume(v >= 1);
            nv = Some(v);
        }
    }
    Ev { kind, id, np, nv }
}

pub fn to_event(e: &Ev) -> Event<OrderId> {
    match e.kind {
        0 => Event::New { order_id: e.id },
        1 => Event::Cancellation { order_id: e.id },
        _ => Event::Modify { order_id: e.id, new_price: e.np, new_vol: e.nv },
    }
}

pub fn ref_apply<const N: usize>(r: &mut Plain<N>, e: &Ev) {
    match e.kind {
        0 => ref_place(r, e.id),
        1 => ref_cancel(r, e.id),
        _ => ref_modify(r, e.id, e.np, e.nv),
    }
}

/// k arbitrary prior records in every series (equal lengths: the inductive hypothesis of C11)
pub fn gen_records<const L: usize>(env: &mut Env<L>, k: usize) -> [[u32; 4]; 2] {
    // returns the scalar part of the prior records so that the prefix can be compared afterwards
    let mut saved = [[0u32; 4]; 2];
    let mut j = 0;
    while j < k {
        let rec: Level2Data<L> = Level2Data {
            bid_price: any_u32(),
            ask_price: any_u32(),
            bid_vol: any_u32(),
            ask_vol: any_u32(),
            bid_price_levels: core::array::from_fn(|_| (any_u32(), any_u32())),
            ask_price_levels: core::array::from_fn(|_| (any_u32(), any_u32())),
        };
        if j < 2 {
            saved[j] = [rec.bid_price, rec.ask_price, rec.bid_vol, rec.ask_vol];
        }
        env.level_2_data_records.append_record(&rec);
        env.trade_vols.push(any_u32());
        j += 1;
    }
    saved
}

/// arbitrary level-2 data (what an earlier step may have left in the cache)
pub fn any_l2<const L: usize>() -> Level2Data<L> {
    Level2Data {
        bid_price: any_u32(),
        ask_price: any_u32(),
        bid_vol: any_u32(),
        ask_vol: any_u32(),
        bid_price_levels: core::array::from_fn(|_| (any_u32(), any_u32())),
        ask_price_levels: core::array::from_fn(|_| (any_u32(), any_u32())),
    }
}

pub const E8: u32 = 1; // C08: batch applied exactly once each in the shuffled order at start+i
pub const E10: u32 = 2; // C10: cache == live after the step
pub const E11: u32 = 4; // C11: every series grew by one faithful record

/// every recorded series has k+1 entries and the last one equals the live book's value
pub fn records_faithful<const L: usize>(env: &Env<L>, k: usize) -> bool {
    let b = &env.order_book;
    let r = &env.level_2_data_records;
    let n = k + 1;
    let (bid, ask) = b.bid_ask();
    let bl = b.bid_levels();
    let al = b.ask_levels();
    let mut ok = r.prices.0.len() == n && r.prices.1.len() == n && r.volumes.0.len() == n && r.volumes.1.len() == n;
    ok &= env.trade_vols.len() == n;
    if !ok {
        return false;
    }
    ok &= r.prices.0[k] == bid && r.prices.1[k] == ask;
    ok &= r.volumes.0[k] == b.bid_vol() && r.volumes.1[k] == b.ask_vol();
    let mut l = 0;
    while l < L {
        ok &= r.volumes_at_levels.0[l].len() == n && r.volumes_at_levels.1[l].len() == n;
        ok &= r.orders_at_levels.0[l].len() == n && r.orders_at_levels.1[l].len() == n;
        if ok {
            ok &= r.volumes_at_levels.0[l][k] == bl[l].0 && r.orders_at_levels.0[l][k] == bl[l].1;
            ok &= r.volumes_at_levels.1[l][k] == al[l].0 && r.orders_at_levels.1[l][k] == al[l].1;
        }
        l += 1;
    }
    ok
}

pub fn l2_equal<const L: usize>(a: &Level2Data<L>, b: &Level2Data<L>) -> bool {
    let mut ok = a.bid_price == b.bid_price && a.ask_price == b.ask_price && a.bid_vol == b.bid_vol && a.ask_vol == b.ask_vol;
    let mut l = 0;
    while l < L {
        ok &= a.bid_price_levels[l] == b.bid_price_levels[l] && a.ask_price_levels[l] == b.ask_price_levels[l];
        l += 1;
    }
    ok
}

/// valid-history assumptions for a whole batch: injected volume stays < 2^32, no active order
/// carries the step's start time as queue time (batch <= step size in every earlier step)
pub fn assume_batch_valid<const N: usize>(p: &Plain<N>, evs: &[Ev], nb: usize, _discipline: bool) {
    let mut total: u64 = 0;
    let mut i = 0;
    while i < N {
        if i < p.n {
            let o = entry_order(&p.e[i]);
            if o.status == Status::New || o.status == Status::Active {
                total += o.vol as u64;
            }
        }
        i += 1;
    }
    let mut k = 0;
    while k < nb {
        if let Some(v) = evs[k].nv {
            total += v as u64;
        }
        k += 1;
    }
    assume(total <= u32::MAX as u64);
}

/// `Env::step` on an arbitrary environment: `m` table entries, `NB` queued instructions, `k` prior
/// records, symbolic generator words
pub fn step_env<const N: usize, const L: usize, const NB: usize>(m: usize, k: usize, cfg: GenCfg, mask: u32, spec: [EvSpec; NB]) {
    step_env_sched::<N, L, NB>(m, k, cfg, mask, spec, None)
}

/// representative generator words for each schedule of a batch of 2 / 3 (all accepted at first
/// draw): with a CONCRETE schedule the instruction processed at each position is concrete, so the
/// symbolic executor follows one dispatch path per position; which schedule a word selects is
/// decided for ALL words by the shuffle lemmas (C15), and all n! schedules are enumerated here
pub const SCHED2: [[u32; 2]; 2] = [[0x8000_0000, 0], [0, 0]];
pub const SCHED3: [[u32; 2]; 6] = [
    [0xAAAA_AAAB, 0x8000_0000],
    [0xAAAA_AAAB, 0],
    [0x5555_5556, 0x8000_0000],
    [0x5555_5556, 0],
    [0, 0x8000_0000],
    [0, 0],
];

pub fn step_env_sched<const N: usize, const L: usize, const NB: usize>(m: usize, k: usize, cfg: GenCfg, mask: u32, spec: [EvSpec; NB], words: Option<[u32; 2]>) {
    let p: Plain<N> = gen_plain::<N>(m, cfg);
    assume(p.t < (1u64 << 62));
    let step_size = any_u64();
    assume(step_size >= NB as u64 && step_size < (1u64 << 62));
    let mut evs = [Ev { kind: 1, id: 0, np: None, nv: None }; NB];
    let mut i = 0;
    while i < NB {
        evs[i] = gen_ev(m, p.tick, spec[i]);
        i += 1;
    }
    assume_batch_valid(&p, &evs, NB, cfg.discipline);
    let (book, old) = build_with_log::<N, L>(&p, cfg.ntrades);
    let mut env: Env<L> = Env::verif_from_book(step_size, book);
    let saved = gen_records(&mut env, k);
    // whatever the cache held before must not survive the step
    env.verif_set_level_2_data(any_l2::<L>());
    let mut i = 0;
    while i < NB {
        env.transactions.push(to_event(&evs[i]));
        i += 1;
    }
    let mut rng = SymRng::new();
    match words {
        None => shuffle_words(&mut rng, NB),
        Some(w) => {
            let mut i = 0;
            while i + 1 < NB {
                rng.pre[i] = w[i] as u64;
                rng.npre += 1;
                i += 1;
            }
        }
    }
    rng.strict = true;
    let mut rng2 = rng;

    env.step(&mut rng);

    // the permutation those words induce (shuffle is data independent: C15 L1)
    let mut pi = [0usize; NB];
    let mut i = 0;
    while i < NB {
        pi[i] = i;
        i += 1;
    }
    pi.shuffle(&mut rng2);
    // reference: plain replay in that order at start+i
    let mut r = p;
    r.trade_vol = 0;
    let mut i = 0;
    while i < NB {
        r.t = p.t + i as u64;
        ref_apply(&mut r, &evs[pi[i]]);
        i += 1;
    }
    r.t = p.t + step_size;

    let b = &env.order_book;
    if mask & E8 != 0 {
        vcheck!(env.transactions.is_empty(), "STEP.queue_empty_after_step");
        vcheck!(b.get_time() == p.t + step_size, "STEP.clock_at_start_plus_step_size");
        vcheck!(table_matches(b, &r), "STEP.orders_equal_plain_replay_in_shuffled_order");
        vcheck!(new_trades_match(b, &r, cfg.ntrades), "STEP.trades_equal_plain_replay");
        vcheck!(b.get_trade_vol() == r.trade_vol, "STEP.trade_vol_counts_only_this_step");
        vcheck!(old_trades_unchanged(b, cfg.ntrades, &old), "STEP.old_trades_unchanged");
        vcheck!(index_equals_reload::<N, L>(b), "INDEX.side_indexes_equal_rebuild_from_orders");
        vcheck!(rng.calls == NB.saturating_sub(1) && !rng.overdrawn, "STEP.draws_exactly_the_shuffle_words");
        vcheck!(env.trade_vols.len() == k + 1 && env.trade_vols[k] == r.trade_vol, "STEP.recorded_step_volume_is_this_steps");
    }
    if mask & E10 != 0 {
        vcheck!(l2_equal(&env.level_2_data, &b.level_2_data()), "CACHE.level_2_snapshot_equals_live_book_after_step");
    }
    if mask & E11 != 0 {
        vcheck!(records_faithful(&env, k), "RECORDS.one_faithful_entry_appended_to_every_series");
        let mut same = true;
        let mut j = 0;
        while j < 2 {
            if j < k {
                let r = &env.level_2_data_records;
                same &= r.prices.0[j] == saved[j][0] && r.prices.1[j] == saved[j][1] && r.volumes.0[j] == saved[j][2] && r.volumes.1[j] == saved[j][3];
            }
            j += 1;
        }
        vcheck!(same, "RECORDS.earlier_entries_unchanged");
        // per-step traded volume == sum of the trades stamped within the step
        let mut sum: u64 = 0;
        let mut q = cfg.ntrades;
        while q < b.get_trades().len() {
            let t = &b.get_trades()[q];
            if t.t >= p.t && t.t < p.t + step_size {
                sum += t.vol as u64;
            }
            q += 1;
        }
        vcheck!(env.trade_vols.len() == k + 1 && env.trade_vols[k] as u64 == sum, "RECORDS.step_volume_is_sum_of_trades_stamped_in_step");
    }
    if NB >= 2 && words.is_none() {
        vcover!(pi[0] == NB - 1, "cover.last_submitted_processed_first");
        if cfg.trading != Some(false) {
            vcover!(pi[0] == 0 && r.ntr >= 1, "cover.in_order_with_trade");
        }
    }
    if NB >= 2 && words.is_some() {
        vcover!(r.ntr >= 1, "cover.schedule_with_trade");
    }
    if NB == 0 {
        vcover!(p.trade_vol > 0, "cover.idle_step_after_trading_step");
    }
    core::mem::forget(env);
}

/// `Env::step` with `process_event` replaced by a logging stand-in: the step LOOP in isolation.
/// Fully symbolic batch (kinds, ids, arguments, duplicates) and generator words, arbitrary book.
pub fn step_loop<const N: usize, const L: usize, const NB: usize>(m: usize, k: usize) {
    let cfg = LOG1;
    let p: Plain<N> = gen_plain::<N>(m, cfg);
    assume(p.t < (1u64 << 62));
    let step_size = any_u64();
    assume(step_size >= NB as u64 && step_size < (1u64 << 62));
    let mut evs = [Ev { kind: 1, id: 0, np: None, nv: None }; NB];
    let mut i = 0;
    while i < NB {
        evs[i] = gen_ev(m, p.tick, EV_ANY);
        i += 1;
    }
    let (book, old) = build_with_log::<N, L>(&p, cfg.ntrades);
    let mut env: Env<L> = Env::verif_from_book(step_size, book);
    let saved = gen_records(&mut env, k);
    // whatever the cache held before must not survive the step
    env.verif_set_level_2_data(any_l2::<L>());
    let mut i = 0;
    while i < NB {
        env.transactions.push(to_event(&evs[i]));
        i += 1;
    }
    let mut rng = SymRng::new();
    shuffle_words(&mut rng, NB);
    rng.strict = true;
    let mut rng2 = rng;

    env.step(&mut rng);

    let mut pi = [0usize; NB];
    let mut i = 0;
    while i < NB {
        pi[i] = i;
        i += 1;
    }
    pi.shuffle(&mut rng2);
    let b = &env.order_book;
    let tr = b.get_trades();
    vcheck!(env.transactions.is_empty(), "STEP.queue_empty_after_step");
    vcheck!(b.get_time() == p.t + step_size, "STEP.clock_at_start_plus_step_size");
    vcheck!(tr.len() == cfg.ntrades + NB, "STEP.every_instruction_processed_exactly_once");
    let mut order_ok = true;
    let mut time_ok = true;
    let mut i = 0;
    while i < NB {
        if cfg.ntrades + i < tr.len() {
            let t = &tr[cfg.ntrades + i];
            let e = &evs[pi[i]];
            let code = e.kind as usize + if e.np.is_some() { 4 } else { 0 } + if e.nv.is_some() { 8 } else { 0 };
            order_ok &= t.active_order_id == e.id && t.passive_order_id == code && t.price == e.np.unwrap_or(0) && t.vol == e.nv.unwrap_or(0);
            time_ok &= t.t == p.t + i as u64;
        }
        i += 1;
    }
    vcheck!(order_ok, "STEP.processing_order_is_the_permutation_the_words_induce_and_arguments_intact");
    vcheck!(time_ok, "STEP.ith_processed_instruction_stamped_start_plus_i");
    vcheck!(old_trades_unchanged(b, cfg.ntrades, &old), "STEP.old_trades_unchanged");
    vcheck!(b.get_trade_vol() == NB as u32, "STEP.trade_vol_counts_only_this_step");
    vcheck!(env.trade_vols.len() == k + 1 && env.trade_vols[k] == NB as u32, "STEP.recorded_step_volume_is_this_steps");
    vcheck!(rng.calls == NB.saturating_sub(1) && !rng.overdrawn, "STEP.draws_exactly_the_shuffle_words");
    // nothing else: the order table and both side indexes are as before
    let mut e0 = p;
    e0.t = p.t + step_size;
    e0.trade_vol = NB as u32;
    vcheck!(table_matches(b, &e0) && index_equals_reload::<N, L>(b), "STEP.applies_nothing_else");
    vcheck!(l2_equal(&env.level_2_data, &b.level_2_data()), "CACHE.level_2_snapshot_equals_live_book_after_step");
    vcheck!(records_faithful(&env, k), "RECORDS.one_faithful_entry_appended_to_every_series");
    let _ = saved;
    if NB >= 2 {
        vcover!(pi[0] == NB - 1 && pi[NB - 1] == 0, "cover.first_and_last_swapped");
        vcover!(evs[0].kind == 0 && evs[1].kind == 1 && evs[0].id == evs[1].id, "cover.place_and_cancel_of_the_same_order_in_one_batch");
    }
    core::mem::forget(env);
}

/// C10 / C12 at environment level: one submission (place / cancel / modify) on an arbitrary
/// environment between steps.  Nothing observable changes except that a successfully created order
/// appears with status New and the queue grows by exactly that instruction.
pub fn submit_env<const N: usize, const L: usize>(m: usize, cfg: GenCfg, which_fixed: u8) {
    let p: Plain<N> = gen_plain::<N>(m, cfg);
    let (book, old) = build_with_log::<N, L>(&p, cfg.ntrades);
    let twin = build::<N, L>(&p, 0);
    let mut env: Env<L> = Env::verif_from_book(any_u64(), book);
    let _saved = gen_records(&mut env, 1);
    // one instruction is already waiting
    let waiting = gen_ev(m, p.tick, EV_ANY);
    env.transactions.push(to_event(&waiting));
    // the cached snapshot is whatever the previous step left (arbitrary here: it must not be touched)
    let cached: Level2Data<L> = Level2Data {
        bid_price: any_u32(),
        ask_price: any_u32(),
        bid_vol: any_u32(),
        ask_vol: any_u32(),
        bid_price_levels: core::array::from_fn(|_| (any_u32(), any_u32())),
        ask_price_levels: core::array::from_fn(|_| (any_u32(), any_u32())),
    };
    let cached_copy: Level2Data<L> = Level2Data {
        bid_price: cached.bid_price,
        ask_price: cached.ask_price,
        bid_vol: cached.bid_vol,
        ask_vol: cached.ask_vol,
        bid_price_levels: cached.bid_price_levels,
        ask_price_levels: cached.ask_price_levels,
    };
    env.verif_set_level_2_data(cached);
    let rec_last = (env.level_2_data_records.prices.0[0], env.level_2_data_records.volumes.1[0], env.trade_vols[0]);

    let which = if which_fixed == ANY {
        let w = any_u8();
        assume(w < 3);
        w
    } else {
        which_fixed
    };
    let bid = any_bool();
    let vol = any_u32();
    let trader = any_u32();
    let price = if any_bool() { Some(any_u32()) } else { None };
    let id = any_usize();
    let np = if any_bool() { Some(any_u32()) } else { None };
    let nv = if any_bool() { Some(any_u32()) } else { None };
    let mut expect_orders = m;
    let mut expect_queue = 2usize;
    match which {
        0 => {
            let on_grid = match price {
                Some(px) => px % p.tick == 0,
                None => true,
            };
            let got = env.place_order(mk_side(bid), vol, trader, price);
            match got {
                Ok(new_id) => {
                    vcheck!(on_grid, "GRID.off_grid_creation_is_rejected");
                    vcheck!(new_id == m, "SUBMIT.ids_dense_in_creation_order");
                    expect_orders = m + 1;
                    if env.order_book.verif_n_orders() == m + 1 {
                        let o = env.order(m);
                        let want_price = match price {
                            Some(px) => px,
                            None => if bid { Price::MAX } else { 0 },
                        };
                        vcheck!(o.status == Status::New && is_bid(o.side) == bid && o.vol == vol && o.start_vol == vol && o.price == want_price && o.trader_id == trader && o.order_id == m && o.arr_time == p.t && o.end_time == Nanos::MAX,
                            "SUBMIT.new_order_appears_with_status_new_and_the_submitted_fields");
                    }
                    vcheck!(env.verif_queue_len() == 2 && env.verif_queued(1) == (0, m, None, None), "SUBMIT.queue_grows_by_exactly_the_new_order_instruction");
                }
                Err(e) => {
                    vcheck!(!on_grid, "GRID.on_grid_creation_is_accepted");
                    expect_queue = 1;
                    let carries = match (e, price) {
                        (OrderError::PriceError { price: ep, tick_size: et }, Some(px)) => ep == px && et == p.tick,
                        _ => false,
                    };
                    vcheck!(carries, "GRID.error_reports_price_and_tick");
                }
            }
        }
        1 => {
            env.cancel_order(id);
            vcheck!(env.verif_queue_len() == 2 && env.verif_queued(1) == (1, id, None, None), "SUBMIT.queue_grows_by_exactly_the_cancel_instruction");
        }
        _ => {
            env.modify_order(id, np, nv);
            vcheck!(env.verif_queue_len() == 2 && env.verif_queued(1) == (2, id, np, nv), "SUBMIT.queue_grows_by_exactly_the_modify_instruction");
        }
    }
    vcheck!(env.verif_queue_len() == expect_queue, "SUBMIT.queue_length");
    vcheck!(env.verif_queued(0) == (waiting.kind, waiting.id, waiting.np, waiting.nv), "SUBMIT.waiting_instructions_untouched");
    // invisible until the next step: live book (existing orders, trades, every view, clock, flag, counter)
    let b = &env.order_book;
    vcheck!(b.verif_n_orders() == expect_orders, "SUBMIT.rejected_creation_consumes_no_id");
    vcheck!(snapshot_equal_prefix::<N, L>(b, &p, cfg.ntrades, &old), "SUBMIT.live_book_unchanged_until_next_step");
    vcheck!(sides_same(b, &twin), "SUBMIT.side_indexes_untouched");
    core::mem::forget(twin);
    vcheck!(l2_equal(env.level_2_data(), &cached_copy), "SUBMIT.cached_level_2_snapshot_untouched");
    let r = &env.level_2_data_records;
    vcheck!(r.prices.0.len() == 1 && r.prices.1.len() == 1 && r.volumes.0.len() == 1 && r.volumes.1.len() == 1 && env.trade_vols.len() == 1
        && r.prices.0[0] == rec_last.0 && r.volumes.1[0] == rec_last.1 && env.trade_vols[0] == rec_last.2, "SUBMIT.recorded_histories_untouched");
    vcover!(which == 0 && expect_orders == m + 1 && price.is_some(), "cover.limit_order_created");
    vcover!(which == 0 && expect_queue == 1, "cover.creation_rejected");
    core::mem::forget(env);
}

// ------------------------------------------------------------------------------------------
// C15: shuffle lemmas on the compiled rand 0.8.5 code
// ------------------------------------------------------------------------------------------

/// L2: the index draw behind `shuffle` (`gen_index` -> `gen_range(0..r)` ->
/// `UniformInt::<u32>::sample_single_inclusive`) returns the high half of word * r for the first
/// word whose low half lies in the acceptance zone, and consumes exactly the words up to that one
pub fn lemma_index_draw() {
    use rand::Rng;
    let r = any_u32();
    assume(r >= 1 && r <= 64);
    let mut rng = SymRng::new();
    let w1 = rng.push_u32();
    let w2 = rng.push_u32();
    // at most one rejection (a rejected word only re-enters the same loop with a fresh word)
    assume(accepted_u32(w1, r) || accepted_u32(w2, r));
    rng.strict = true;
    let got: u32 = rng.gen_range(0..r);
    vcheck!(got < r, "SHUFFLE.index_in_range");
    if accepted_u32(w1, r) {
        vcheck!(got == index_u32(w1, r) && rng.calls == 1, "SHUFFLE.accepted_word_yields_high_half_of_product_and_one_draw");
    } else {
        vcheck!(got == index_u32(w2, r) && rng.calls == 2, "SHUFFLE.rejected_word_is_discarded_and_redrawn");
    }
    vcheck!(!rng.overdrawn, "SHUFFLE.no_further_draws");
    vcover!(!accepted_u32(w1, r), "cover.first_word_rejected");
    vcover!(accepted_u32(w1, r) && got == r - 1 && r == 6, "cover.last_index_of_six");
}

/// L3: the acceptance zone Z(r) = (r << clz r) - 1 has Z(r) + 1 = r * 2^(clz r) exactly (no bits
/// lost, no wrap), on the real `u32::leading_zeros`; hence Z(r)+1 is a multiple of r and every index
/// value owns exactly 2^(clz r) accepted words: each accepted draw is exactly uniform on 0..r
pub fn lemma_zone_is_multiple_of_range() {
    let r = any_u32();
    assume(r >= 1);
    let k = r.leading_zeros();
    let zone = (r << k).wrapping_sub(1);
    // shifting in 64 bits loses nothing in 32: the product r * 2^k fits
    vcheck!(((r as u64) << k) <= u32::MAX as u64, "SHUFFLE.zone_product_fits_32_bits");
    vcheck!((zone as u64) + 1 == (r as u64) << k, "SHUFFLE.zone_plus_one_is_range_times_power_of_two");
    // the harness's restatement of the acceptance test is the one the lemma is about
    let v = any_u32();
    vcheck!(accepted_u32(v, r) == (v.wrapping_mul(r) <= zone), "SHUFFLE.acceptance_test_restated");
    vcover!(k == 29, "cover.small_range");
}

/// L4: for n items the map (index tuple) -> permutation realised by the compiled `shuffle` is
/// injective; together with the covers (every one of the n! permutations is produced) it is a
/// bijection between the n! equiprobable index tuples and the permutations
pub fn lemma_bijection<const NB: usize>() -> ([usize; NB], bool) {
    let mut a = SymRng::new();
    shuffle_words(&mut a, NB);
    let mut b = SymRng::new();
    shuffle_words(&mut b, NB);
    let (wa, wb) = (a, b);
    let mut pa = [0usize; NB];
    let mut pb = [0usize; NB];
    let mut i = 0;
    while i < NB {
        pa[i] = i;
        pb[i] = i;
        i += 1;
    }
    pa.shuffle(&mut a);
    pb.shuffle(&mut b);
    // a permutation: every item exactly once
    let mut perm = true;
    let mut x = 0;
    while x < NB {
        let mut cnt = 0;
        let mut j = 0;
        while j < NB {
            if pa[j] == x {
                cnt += 1;
            }
            j += 1;
        }
        perm &= cnt == 1;
        x += 1;
    }
    vcheck!(perm, "SHUFFLE.result_is_a_permutation");
    vcheck!(a.calls == NB - 1 && b.calls == NB - 1, "SHUFFLE.consumes_n_minus_one_words");
    let mut same_perm = true;
    let mut same_idx = true;
    let mut i = 0;
    while i < NB {
        same_perm &= pa[i] == pb[i];
        if i + 1 < NB {
            // the i-th draw picks among NB - i items
            let r = (NB - i) as u32;
            same_idx &= index_u32(wa.pre[i] as u32, r) == index_u32(wb.pre[i] as u32, r);
        }
        i += 1;
    }
    vcheck!(!same_perm || same_idx, "SHUFFLE.distinct_index_tuples_give_distinct_permutations");
    vcheck!(!same_idx || same_perm, "SHUFFLE.same_generator_words_same_permutation");
    (pa, same_perm)
}
pub fn lemma_bijection_3() {
    let (p, _) = lemma_bijection::<3>();
    vcover!(p[0] == 0 && p[1] == 1, "cover.perm_012");
    vcover!(p[0] == 0 && p[1] == 2, "cover.perm_021");
    vcover!(p[0] == 1 && p[1] == 0, "cover.perm_102");
    vcover!(p[0] == 1 && p[1] == 2, "cover.perm_120");
    vcover!(p[0] == 2 && p[1] == 0, "cover.perm_201");
    vcover!(p[0] == 2 && p[1] == 1, "cover.perm_210");
}
/// n = 5, 6: injectivity alone (the index tuples number n!, so an injective map into the n! permutations is
/// onto by counting - stated arithmetic; every index value of every draw is attainable by L2)
pub fn lemma_bijection_5() {
    let (p, _) = lemma_bijection::<5>();
    vcover!(p[0] == 4 && p[1] == 3 && p[2] == 2 && p[3] == 1, "cover.reversed");
    vcover!(p[0] == 0 && p[1] == 1 && p[2] == 2 && p[3] == 3, "cover.identity");
}
pub fn lemma_bijection_6() {
    let (p, _) = lemma_bijection::<6>();
    vcover!(p[0] == 5 && p[1] == 4 && p[2] == 3 && p[3] == 2 && p[4] == 1, "cover.reversed");
    vcover!(p[0] == 0 && p[1] == 1 && p[2] == 2 && p[3] == 3 && p[4] == 4, "cover.identity");
}
pub fn lemma_bijection_n<const NB: usize>() {
    let (p, _) = lemma_bijection::<NB>();
    vcover!(p[0] == NB - 1 && p[NB - 1] == 0, "cover.ends_swapped");
}
pub fn lemma_bijection_4() {
    let (p, _) = lemma_bijection::<4>();
    // rank of the permutation in lexicographic order (Lehmer code), all 24 must be reachable
    let l0 = p[0];
    let l1 = p[1] - (p[0] < p[1]) as usize;
    let l2 = p[2] - (p[0] < p[2]) as usize - (p[1] < p[2]) as usize;
    let rank = l0 * 6 + l1 * 2 + l2;
    vcover!(rank == 0, "cover.perm_rank_00");
    vcover!(rank == 1, "cover.perm_rank_01");
    vcover!(rank == 2, "cover.perm_rank_02");
    vcover!(rank == 3, "cover.perm_rank_03");
    vcover!(rank == 4, "cover.perm_rank_04");
    vcover!(rank == 5, "cover.perm_rank_05");
    vcover!(rank == 6, "cover.perm_rank_06");
    vcover!(rank == 7, "cover.perm_rank_07");
    vcover!(rank == 8, "cover.perm_rank_08");
    vcover!(rank == 9, "cover.perm_rank_09");
    vcover!(rank == 10, "cover.perm_rank_10");
    vcover!(rank == 11, "cover.perm_rank_11");
    vcover!(rank == 12, "cover.perm_rank_12");
    vcover!(rank == 13, "cover.perm_rank_13");
    vcover!(rank == 14, "cover.perm_rank_14");
    vcover!(rank == 15, "cover.perm_rank_15");
    vcover!(rank == 16, "cover.perm_rank_16");
    vcover!(rank == 17, "cover.perm_rank_17");
    vcover!(rank == 18, "cover.perm_rank_18");
    vcover!(rank == 19, "cover.perm_rank_19");
    vcover!(rank == 20, "cover.perm_rank_20");
    vcover!(rank == 21, "cover.perm_rank_21");
    vcover!(rank == 22, "cover.perm_rank_22");
    vcover!(rank == 23, "cover.perm_rank_23");
}

/// C13 at environment level: the trading toggles of `Env` change the flag of the wrapped book and
/// nothing else (queue, cache, histories, every book observable)
pub fn env_toggle<const N: usize, const L: usize>(m: usize) {
    let cfg = LOG1;
    let p: Plain<N> = gen_plain::<N>(m, cfg);
    let (book, old) = build_with_log::<N, L>(&p, cfg.ntrades);
    let twin = build::<N, L>(&p, 0);
    let mut env: Env<L> = Env::verif_from_book(any_u64(), book);
    let waiting = gen_ev(m, p.tick, EV_ANY);
    env.transactions.push(to_event(&waiting));
    let on = any_bool();
    if on {
        env.enable_trading();
    } else {
        env.disable_trading();
    }
    let mut exp = p;
    exp.trading = on;
    vcheck!(env.order_book.verif_trading() == on, "TOGGLE.sets_the_books_flag");
    vcheck!(snapshot_equal::<N, L>(&env.order_book, &exp, cfg.ntrades, &old, false) && sides_same(&env.order_book, &twin), "TOGGLE.changes_nothing_else_in_the_book");
    vcheck!(env.verif_queue_len() == 1 && env.verif_queued(0) == (waiting.kind, waiting.id, waiting.np, waiting.nv) && env.trade_vols.is_empty(), "TOGGLE.queue_and_histories_untouched");
    vcover!(on && !p.trading, "cover.re_enabled");
    core::mem::forget(env);
    core::mem::forget(twin);
}

pub const fn shaped(base: GenCfg, shape: [u8; 4]) -> GenCfg {
    GenCfg { shape, ..base }
}
pub const LOG1_OFF: GenCfg = GenCfg { ntrades: 1, ..OFF };
pub const LOG1_ON: GenCfg = GenCfg { ntrades: 1, ..ON };
pub const ALL: u32 = E8 | E10 | E11;

vharnesses! {
    // the step loop in isolation (process_event replaced by a logging stand-in), batches of 2..4
    #[cfg_attr(kani, kani::unwind(6))]
    #[cfg_attr(kani, kani::stub(bourse_book::OrderBook::process_event, bourse_book::OrderBook::verif_log_event))]
    fn env_step_loop_b2() { step_loop::<3, 2, 2>(2, 1) }
    #[cfg_attr(kani, kani::unwind(6))]
    #[cfg_attr(kani, kani::stub(bourse_book::OrderBook::process_event, bourse_book::OrderBook::verif_log_event))]
    fn env_step_loop_b3() { step_loop::<3, 2, 3>(2, 1) }
    #[cfg_attr(kani, kani::unwind(6))]
    #[cfg_attr(kani, kani::stub(bourse_book::OrderBook::process_event, bourse_book::OrderBook::verif_log_event))]
    fn env_step_loop_b4() { step_loop::<3, 2, 4>(2, 0) }
    // one arbitrary instruction, real process_event
    #[cfg_attr(kani, kani::unwind(4))]
    fn env_step_b1_any() { step_env::<3, 2, 1>(2, 1, LOG1, ALL, [EV_ANY]) }
    #[cfg_attr(kani, kani::unwind(4))]
    fn env_step_b1_any_off() { step_env::<3, 2, 1>(2, 1, LOG1_OFF, ALL, [EV_ANY]) }
    // one instruction of ONE kind with the real process_event and trading ON (the quick-tier split of env_step_b1_any)
    #[cfg_attr(kani, kani::unwind(4))]
    fn env_step_b1_modify_on() { step_env::<3, 2, 1>(2, 1, LOG1_ON, ALL, [ev(2, usize::MAX)]) }
    #[cfg_attr(kani, kani::unwind(4))]
    fn env_step_b1_new_on() { step_env::<3, 2, 1>(2, 1, LOG1_ON, ALL, [ev(0, usize::MAX)]) }
    // C15 lemmas on the compiled rand code
    #[cfg_attr(kani, kani::unwind(4))]
    fn c15_index_draw_lemma() { lemma_index_draw() }
    #[cfg_attr(kani, kani::unwind(4))]
    fn c15_zone_lemma() { lemma_zone_is_multiple_of_range() }
    #[cfg_attr(kani, kani::unwind(5))]
    fn c15_bijection_3() { lemma_bijection_3() }
    #[cfg_attr(kani, kani::unwind(6))]
    fn c15_bijection_4() { lemma_bijection_4() }
    #[cfg_attr(kani, kani::unwind(7))]
    fn c15_bijection_5() { lemma_bijection_5() }
    #[cfg_attr(kani, kani::unwind(8))]
    fn c15_bijection_6() { lemma_bijection_6() }
    #[cfg_attr(kani, kani::unwind(10))]
    fn c15_bijection_8() { lemma_bijection_n::<8>() }
    #[cfg_attr(kani, kani::unwind(14))]
    fn c15_bijection_12() { lemma_bijection_n::<12>() }
    #[cfg_attr(kani, kani::unwind(4))]
    fn env_toggle_m2() { env_toggle::<3, 2>(2) }
    // one submission between steps (tick symbolic 1..=10)
    #[cfg_attr(kani, kani::unwind(4))]
    fn env_submit_tick1_m2() { submit_env::<3, 2>(2, GenCfg { ntrades: 1, tick: 1, ..CFG }, ANY) }
    #[cfg_attr(kani, kani::unwind(4))]
    fn env_submit_tick2_m2() { submit_env::<3, 2>(2, GenCfg { ntrades: 1, tick: 2, ..CFG }, ANY) }
    #[cfg_attr(kani, kani::unwind(4))]
    fn env_submit_tick3_m2() { submit_env::<3, 2>(2, GenCfg { ntrades: 1, tick: 3, ..CFG }, ANY) }
    #[cfg_attr(kani, kani::unwind(4))]
    fn env_submit_tick4_m2() { submit_env::<3, 2>(2, GenCfg { ntrades: 1, tick: 4, ..CFG }, ANY) }
    #[cfg_attr(kani, kani::unwind(4))]
    fn env_submit_tick5_m2() { submit_env::<3, 2>(2, GenCfg { ntrades: 1, tick: 5, ..CFG }, ANY) }
    #[cfg_attr(kani, kani::unwind(4))]
    fn env_submit_tick6_m2() { submit_env::<3, 2>(2, GenCfg { ntrades: 1, tick: 6, ..CFG }, ANY) }
    #[cfg_attr(kani, kani::unwind(4))]
    fn env_submit_tick7_m2() { submit_env::<3, 2>(2, GenCfg { ntrades: 1, tick: 7, ..CFG }, ANY) }
    #[cfg_attr(kani, kani::unwind(4))]
    fn env_submit_tick8_m2() { submit_env::<3, 2>(2, GenCfg { ntrades: 1, tick: 8, ..CFG }, ANY) }
    #[cfg_attr(kani, kani::unwind(4))]
    fn env_submit_tick9_m2() { submit_env::<3, 2>(2, GenCfg { ntrades: 1, tick: 9, ..CFG }, ANY) }
    #[cfg_attr(kani, kani::unwind(4))]
    fn env_submit_tick10_m2() { submit_env::<3, 2>(2, GenCfg { ntrades: 1, tick: 10, ..CFG }, ANY) }
    // an idle step: clock, counter reset, one faithful record; nothing else moves
    #[cfg_attr(kani, kani::unwind(4))]
    fn env_step_b0_m2() { step_env::<3, 2, 0>(2, 1, LOG1, ALL, []) }
    // three arbitrary instructions (duplicates, same-step cancels / modifies) on three orders
    // created in this step, trading off: every schedule, stamps start+i, exactly once each
    #[cfg_attr(kani, kani::unwind(5))]
    fn env_step_b3_new_orders_off() { step_env::<3, 2, 3>(3, 0, shaped(OFF, [1, 1, 1, 0]), E8, [EV_ANY, EV_ANY, EV_ANY]) }
    // two arbitrary instructions on an arbitrary two-entry table, trading off
    #[cfg_attr(kani, kani::unwind(4))]
    fn env_step_b2_any_off() { step_env::<3, 2, 2>(2, 1, LOG1_OFF, ALL, [EV_ANY, EV_ANY]) }
    // a new bid and a new ask that may cross: who is the aggressor depends on the schedule
    #[cfg_attr(kani, kani::unwind(4))]
    fn env_step_b2_cross_on_s0() { step_env_sched::<3, 2, 2>(2, 1, shaped(ON, [10, 11, 0, 0]), ALL, [ev(0, 0), ev(0, 1)], Some(SCHED2[0])) }
    #[cfg_attr(kani, kani::unwind(4))]
    fn env_step_b2_cross_on_s1() { step_env_sched::<3, 2, 2>(2, 1, shaped(ON, [10, 11, 0, 0]), ALL, [ev(0, 0), ev(0, 1)], Some(SCHED2[1])) }
    // a resting bid is modified while a new ask arrives: modify-before-fill vs fill-before-modify
    #[cfg_attr(kani, kani::unwind(4))]
    fn env_step_b2_modify_vs_fill_on() { step_env::<3, 2, 2>(2, 0, shaped(ON, [20, 11, 0, 0]), E8, [ev(2, 0), ev(0, 1)]) }
    // a resting ask is cancelled while a new bid arrives
    #[cfg_attr(kani, kani::unwind(4))]
    fn env_step_b2_cancel_vs_fill_on() { step_env::<3, 2, 2>(2, 0, shaped(ON, [21, 10, 0, 0]), E8, [ev(1, 0), ev(0, 1)]) }
}
