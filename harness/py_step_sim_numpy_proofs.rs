//! Hooked into `rust/src/step_sim_numpy.rs`.  C19 array layouts of `StepEnvNumpy`.
#![allow(dead_code)]
#![allow(clippy::all)]
#![cfg(kani)]
use super::*;
use crate::step_sim::verif_proofs::{any_l2, copy_l2, documented_prefix};
use crate::verif::*;
use bourse_book::types::Level2Data;
use bourse_book::verif::src::*;
use bourse_book::{vcheck, vcover};

pub fn any_numpy_env() -> (StepEnvNumpy, Level2Data<10>, u32) {
    let mut env = BaseEnv::new(any_u64(), 1, any_u64(), any_bool());
    let d = any_l2();
    let keep = copy_l2(&d);
    env.verif_set_level_2_data(d);
    let tv = any_u32();
    env.verif_book_mut().verif_set_trade_vol(tv);
    (StepEnvNumpy { env, rng: Xoroshiro128StarStar::seed_from_u64(0) }, keep, tv)
}

#[kani::proof]
#[kani::unwind(12)]
#[kani::stub(numpy::PyArray::from_slice, stub_from_slice)]
pub fn c19_numpyenv_level_1_data() {
    let (se, d, tv) = any_numpy_env();
    let py = unsafe { Python::assume_gil_acquired() };
    let _ = se.level_1_data(py);
    let (a, n, calls) = recorded();
    vcheck!(calls == 1, "ARRAY.one_array_built");
    vcheck!(n == 9, "ARRAY.level_1_array_has_the_documented_length_9");
    let want = documented_prefix(&d, tv);
    vcheck!(n < 1 || a[0] == want[0], "ARRAY.element_0_is_trade_volume");
    vcheck!(n < 3 || (a[1] == want[1] && a[2] == want[2]), "ARRAY.elements_1_2_are_bid_and_ask_touch_price");
    vcheck!(n < 5 || (a[3] == want[3] && a[4] == want[4]), "ARRAY.elements_3_4_are_bid_then_ask_total_volume");
    vcheck!(n < 9 || (a[5] == d.bid_price_levels[0].0 && a[6] == d.bid_price_levels[0].1 && a[7] == d.ask_price_levels[0].0 && a[8] == d.ask_price_levels[0].1),
        "ARRAY.elements_5_8_are_bid_touch_volume_count_then_ask_touch_volume_count");
    core::mem::forget(se);
}

#[kani::proof]
#[kani::unwind(48)]
#[kani::stub(numpy::PyArray::from_slice, stub_from_slice)]
pub fn c19_numpyenv_level_2_data() {
    let (se, d, tv) = any_numpy_env();
    let py = unsafe { Python::assume_gil_acquired() };
    let _ = se.level_2_data(py);
    let (a, n, calls) = recorded();
    vcheck!(calls == 1, "ARRAY.one_array_built");
    vcheck!(n == 45, "ARRAY.level_2_array_has_the_documented_length_45");
    let want = documented_prefix(&d, tv);
    vcheck!(n < 1 || a[0] == want[0], "ARRAY.element_0_is_trade_volume");
    vcheck!(n < 3 || (a[1] == want[1] && a[2] == want[2]), "ARRAY.elements_1_2_are_bid_and_ask_touch_price");
    vcheck!(n < 5 || (a[3] == want[3] && a[4] == want[4]), "ARRAY.elements_3_4_are_bid_then_ask_total_volume");
    let mut ok = n == 45;
    let mut l = 0;
    while l < 10 {
        if n == 45 {
            ok &= a[5 + 4 * l] == d.bid_price_levels[l].0 && a[6 + 4 * l] == d.bid_price_levels[l].1;
            ok &= a[7 + 4 * l] == d.ask_price_levels[l].0 && a[8 + 4 * l] == d.ask_price_levels[l].1;
        }
        l += 1;
    }
    vcheck!(ok, "ARRAY.per_level_block_is_bid_volume_bid_count_ask_volume_ask_count");
    core::mem::forget(se);
}
