//! bourse::verif — support shared by the harnesses of the PyO3 crate (cfg(kani) only: the extension
//! module cannot be linked into a native replay binary; C18/C19 counterexamples are replayed
//! through the compiled extension under CPython instead).
#![allow(dead_code)]
#![cfg(kani)]
use numpy::{Element, Ix1, PyArray};
use pyo3::Python;

/// what the last `PyArray::from_slice` call was given (u32 arrays only)
pub static mut ARR: [u32; 64] = [0; 64];
pub static mut ARR_LEN: usize = 0;
pub static mut ARR_CALLS: usize = 0;
/// backing storage of the opaque handle (never read through the handle)
pub static mut HANDLE: [u64; 16] = [0; 16];

/// stand-in for `numpy::PyArray::<T, Ix1>::from_slice` (numpy C-API allocation): records the slice
/// it is given and returns an opaque handle that is never dereferenced
pub fn stub_from_slice<'py, T: Element>(_py: Python<'py>, slice: &[T]) -> &'py PyArray<T, Ix1> {
    unsafe {
        ARR_CALLS += 1;
        ARR_LEN = slice.len();
        if core::mem::size_of::<T>() == 4 {
            let mut i = 0;
            while i < slice.len() && i < 64 {
                ARR[i] = core::mem::transmute_copy::<T, u32>(&slice[i]);
                i += 1;
            }
        }
        &*(core::ptr::addr_of!(HANDLE) as *const PyArray<T, Ix1>)
    }
}

/// the array handed to numpy by the call under test
pub fn recorded() -> ([u32; 64], usize, usize) {
    unsafe { (ARR, ARR_LEN, ARR_CALLS) }
}
