//! Support layer shared by every harness (bourse_book::verif).
//!
//! * Under `cfg(kani)` the value source is `kani::any()` / `kani::assume`, checks are
//!   `assert!`s carrying a label, covers are `kani::cover!`.
//! * Under `cfg(verif_replay)` (native build, std `BTreeMap`, no Kani) the value source is a
//!   cursor over the byte vectors Kani's concrete playback printed for a counterexample;
//!   failed checks / assumptions / panics are recorded and reported by `replay::run`.
//!
//! Only primitive draws are used so that the n-th `kani::any()` of a harness corresponds to
//! the n-th recorded byte vector.
#![allow(dead_code)]

#[cfg(kani)]
pub mod src {
    #[inline(always)]
    pub fn any_u8() -> u8 {
        kani::any()
    }
    #[inline(always)]
    pub fn any_u16() -> u16 {
        kani::any()
    }
    #[inline(always)]
    pub fn any_u32() -> u32 {
        kani::any()
    }
    #[inline(always)]
    pub fn any_u64() -> u64 {
        kani::any()
    }
    #[inline(always)]
    pub fn any_usize() -> usize {
        kani::any()
    }
    #[inline(always)]
    pub fn any_bool() -> bool {
        kani::any()
    }
    #[inline(always)]
    pub fn any_f64() -> f64 {
        kani::any()
    }
    #[inline(always)]
    pub fn any_f32() -> f32 {
        kani::any()
    }
    #[inline(always)]
    pub fn assume(c: bool) {
        kani::assume(c)
    }
    /// marks the end of a harness (nothing to do under Kani)
    #[inline(always)]
    pub fn done() {}
}

#[cfg(not(kani))]
pub mod src {
    use std::cell::RefCell;

    #[derive(Default)]
    pub struct State {
        pub vals: Vec<Vec<u8>>,
        pub pos: usize,
        pub failed_checks: Vec<String>,
        pub covers_hit: Vec<String>,
        pub assume_failed: bool,
        pub exhausted: bool,
        pub draws: Vec<(String, String)>,
    }
    thread_local! {
        pub static ST: RefCell<State> = RefCell::new(State::default());
    }
    /// payload used to unwind out of a harness whose assumption does not hold natively
    pub struct AssumeFailed;

    fn next(n: usize, ty: &str) -> Vec<u8> {
        ST.with(|s| {
            let mut s = s.borrow_mut();
            let p = s.pos;
            s.pos += 1;
            let v = if p < s.vals.len() {
                let mut v = s.vals[p].clone();
                v.resize(n, 0);
                v
            } else {
                // Kani omits values the counterexample does not depend on: any value works
                s.exhausted = true;
                vec![0u8; n]
            };
            let shown = match n {
                1 => format!("{}", v[0]),
                2 => format!("{}", u16::from_le_bytes([v[0], v[1]])),
                4 => format!("{}", u32::from_le_bytes([v[0], v[1], v[2], v[3]])),
                _ => format!("{}", u64::from_le_bytes([v[0], v[1], v[2], v[3], v[4], v[5], v[6], v[7]])),
            };
            s.draws.push((ty.to_string(), shown));
            v
        })
    }
    pub fn any_u8() -> u8 {
        next(1, "u8")[0]
    }
    pub fn any_bool() -> bool {
        next(1, "bool")[0] != 0
    }
    pub fn any_u16() -> u16 {
        let v = next(2, "u16");
        u16::from_le_bytes([v[0], v[1]])
    }
    pub fn any_u32() -> u32 {
        let v = next(4, "u32");
        u32::from_le_bytes([v[0], v[1], v[2], v[3]])
    }
    pub fn any_u64() -> u64 {
        let v = next(8, "u64");
        u64::from_le_bytes([v[0], v[1], v[2], v[3], v[4], v[5], v[6], v[7]])
    }
    pub fn any_usize() -> usize {
        any_u64_as("usize") as usize
    }
    fn any_u64_as(ty: &str) -> u64 {
        let v = next(8, ty);
        u64::from_le_bytes([v[0], v[1], v[2], v[3], v[4], v[5], v[6], v[7]])
    }
    pub fn any_f64() -> f64 {
        f64::from_bits(any_u64_as("f64"))
    }
    pub fn any_f32() -> f32 {
        let v = next(4, "f32");
        f32::from_bits(u32::from_le_bytes([v[0], v[1], v[2], v[3]]))
    }
    pub fn assume(c: bool) {
        if !c {
            ST.with(|s| s.borrow_mut().assume_failed = true);
            std::panic::panic_any(AssumeFailed);
        }
    }
    pub fn done() {}
    pub fn record_check(ok: bool, label: &str) {
        if !ok {
            ST.with(|s| s.borrow_mut().failed_checks.push(label.to_string()));
        }
    }
    pub fn record_cover(hit: bool, label: &str) {
        if hit {
            ST.with(|s| s.borrow_mut().covers_hit.push(label.to_string()));
        }
    }
}

/// `vcheck!(cond, "Cxx.label")` — a labelled assertion.
#[cfg(kani)]
#[macro_export]
macro_rules! vcheck {
    ($c:expr, $l:literal) => {
        assert!($c, $l)
    };
}
#[cfg(not(kani))]
#[macro_export]
macro_rules! vcheck {
    ($c:expr, $l:literal) => {
        $crate::verif::src::record_check($c, $l)
    };
}

/// `vcover!(cond, "label")` — reachability / vacuity witness that must be SATISFIED.
#[cfg(kani)]
#[macro_export]
macro_rules! vcover {
    ($c:expr, $l:literal) => {
        kani::cover!($c, $l)
    };
}
#[cfg(not(kani))]
#[macro_export]
macro_rules! vcover {
    ($c:expr, $l:literal) => {
        $crate::verif::src::record_cover($c, $l)
    };
}

/// Native replay driver (cfg(verif_replay) only).
#[cfg(not(kani))]
pub mod replay {
    use super::src::{AssumeFailed, State, ST};

    pub struct Outcome {
        pub found: bool,
        pub assume_failed: bool,
        pub panic_msg: Option<String>,
        pub failed_checks: Vec<String>,
        pub covers_hit: Vec<String>,
        pub exhausted: bool,
        pub draws: Vec<(String, String)>,
    }

    /// Run harness `f` with the recorded values.
    pub fn run_with(vals: Vec<Vec<u8>>, f: fn()) -> Outcome {
        ST.with(|s| {
            *s.borrow_mut() = State {
                vals,
                ..State::default()
            }
        });
        let prev = std::panic::take_hook();
        std::panic::set_hook(Box::new(|_| {}));
        let r = std::panic::catch_unwind(f);
        std::panic::set_hook(prev);
        let mut panic_msg = None;
        if let Err(e) = r {
            if e.downcast_ref::<AssumeFailed>().is_none() {
                panic_msg = Some(if let Some(s) = e.downcast_ref::<&str>() {
                    s.to_string()
                } else if let Some(s) = e.downcast_ref::<String>() {
                    s.clone()
                } else {
                    "panic (non-string payload)".to_string()
                });
            }
        }
        ST.with(|s| {
            let s = s.borrow();
            Outcome {
                found: true,
                assume_failed: s.assume_failed,
                panic_msg,
                failed_checks: s.failed_checks.clone(),
                covers_hit: s.covers_hit.clone(),
                exhausted: s.exhausted,
                draws: s.draws.clone(),
            }
        })
    }

    pub fn not_found() -> Outcome {
        Outcome {
            found: false,
            assume_failed: false,
            panic_msg: None,
            failed_checks: vec![],
            covers_hit: vec![],
            exhausted: false,
            draws: vec![],
        }
    }
}

/// Harness registry of this crate for native replay.
#[cfg(not(kani))]
pub fn lookup(name: &str) -> Option<fn()> {
    crate::orderbook::verif_proofs::lookup(name)
        .or_else(|| crate::side::verif_proofs::lookup(name))
        .or_else(|| crate::market::verif_proofs::lookup(name))
}

/// Declare a group of harnesses: `#[kani::proof]` under Kani, plus a by-name registry for the
/// native replay build.
#[macro_export]
macro_rules! vharnesses {
    ($( $(#[$m:meta])* fn $name:ident() $body:block )*) => {
        $( $(#[$m])* #[cfg_attr(kani, kani::proof)] pub fn $name() $body )*
        #[cfg(not(kani))]
        pub fn lookup(name: &str) -> Option<fn()> {
            $( if name == stringify!($name) { return Some($name as fn()); } )*
            None
        }
    };
}

/// the book-step toolkit (generators, reference engine, comparisons) for harnesses of dependent crates
pub mod book {
    pub use crate::orderbook::verif_proofs::*;
}

pub use crate::market::verif_proofs::market_log;
