//! Hooked into `rust/src/step_sim.rs` (child module: builds `StepEnv` directly).  C19 array
//! layouts and the StepEnv part of C18.
#![allow(dead_code)]
#![allow(clippy::all)]
#![cfg(kani)]
use super::*;
use crate::verif::*;
use bourse_book::types::{Level2Data, Status};
use bourse_book::verif::book::*;
use bourse_book::verif::src::*;
use bourse_book::{vcheck, vcover};

/// arbitrary market data behind the observation arrays (asymmetric: every field its own variable)
pub fn any_l2() -> Level2Data<10> {
    Level2Data {
        bid_price: any_u32(),
        ask_price: any_u32(),
        bid_vol: any_u32(),
        ask_vol: any_u32(),
        bid_price_levels: core::array::from_fn(|_| (any_u32(), any_u32())),
        ask_price_levels: core::array::from_fn(|_| (any_u32(), any_u32())),
    }
}
pub fn copy_l2(d: &Level2Data<10>) -> Level2Data<10> {
    Level2Data { bid_price: d.bid_price, ask_price: d.ask_price, bid_vol: d.bid_vol, ask_vol: d.ask_vol, bid_price_levels: d.bid_price_levels, ask_price_levels: d.ask_price_levels }
}

/// a StepEnv whose cached level-2 data and traded-volume counter are arbitrary
pub fn any_step_env() -> (StepEnv, Level2Data<10>, u32) {
    let mut env = BaseEnv::new(any_u64(), 1, any_u64(), any_bool());
    let d = any_l2();
    let keep = copy_l2(&d);
    env.verif_set_level_2_data(d);
    let tv = any_u32();
    env.verif_book_mut().verif_set_trade_vol(tv);
    (StepEnv { env, rng: Xoroshiro128StarStar::seed_from_u64(0) }, keep, tv)
}

/// the documented layout: [trade volume, bid price, ask price, bid volume, ask volume, then per
/// level: bid volume, bid order count, ask volume, ask order count]
pub fn documented_prefix(d: &Level2Data<10>, tv: u32) -> [u32; 5] {
    [tv, d.bid_price, d.ask_price, d.bid_vol, d.ask_vol]
}

#[kani::proof]
#[kani::unwind(12)]
#[kani::stub(numpy::PyArray::from_slice, stub_from_slice)]
pub fn c19_stepenv_level_1_data_array() {
    let (se, d, tv) = any_step_env();
    let py = unsafe { Python::assume_gil_acquired() };
    let _ = se.level_1_data_array(py);
    let (a, n, calls) = recorded();
    vcheck!(calls == 1, "ARRAY.one_array_built");
    vcheck!(n == 9, "ARRAY.level_1_array_has_the_documented_length_9");
    let want = documented_prefix(&d, tv);
    vcheck!(n < 1 || a[0] == want[0], "ARRAY.element_0_is_trade_volume");
    vcheck!(n < 3 || (a[1] == want[1] && a[2] == want[2]), "ARRAY.elements_1_2_are_bid_and_ask_touch_price");
    vcheck!(n < 5 || (a[3] == want[3] && a[4] == want[4]), "ARRAY.elements_3_4_are_bid_then_ask_total_volume");
    vcheck!(n < 9 || (a[5] == d.bid_price_levels[0].0 && a[6] == d.bid_price_levels[0].1 && a[7] == d.ask_price_levels[0].0 && a[8] == d.ask_price_levels[0].1),
        "ARRAY.elements_5_8_are_bid_touch_volume_count_then_ask_touch_volume_count");
    core::mem::forget(se);
}

#[kani::proof]
#[kani::unwind(48)]
#[kani::stub(numpy::PyArray::from_slice, stub_from_slice)]
pub fn c19_stepenv_level_2_data_array() {
    let (se, d, tv) = any_step_env();
    let py = unsafe { Python::assume_gil_acquired() };
    let _ = se.level_2_data_array(py);
    let (a, n, calls) = recorded();
    vcheck!(calls == 1, "ARRAY.one_array_built");
    vcheck!(n == 45, "ARRAY.level_2_array_has_the_documented_length_45");
    let want = documented_prefix(&d, tv);
    vcheck!(n < 1 || a[0] == want[0], "ARRAY.element_0_is_trade_volume");
    vcheck!(n < 3 || (a[1] == want[1] && a[2] == want[2]), "ARRAY.elements_1_2_are_bid_and_ask_touch_price");
    vcheck!(n < 5 || (a[3] == want[3] && a[4] == want[4]), "ARRAY.elements_3_4_are_bid_then_ask_total_volume");
    let mut ok = n == 45;
    let mut l = 0;
    while l < 10 {
        if n == 45 {
            ok &= a[5 + 4 * l] == d.bid_price_levels[l].0 && a[6 + 4 * l] == d.bid_price_levels[l].1;
            ok &= a[7 + 4 * l] == d.ask_price_levels[l].0 && a[8 + 4 * l] == d.ask_price_levels[l].1;
        }
        l += 1;
    }
    vcheck!(ok, "ARRAY.per_level_block_is_bid_volume_bid_count_ask_volume_ask_count");
    core::mem::forget(se);
}

/// C18: scalar getters and status codes of StepEnv are transparent views of the core
#[kani::proof]
#[kani::unwind(12)]
pub fn c18_stepenv_getters() {
    let p: Plain<3> = gen_plain::<3>(2, OFF);
    let book = build::<3, 10>(&p, 0);
    let mut env: BaseEnv = BaseEnv::verif_from_book(any_u64(), book);
    let d = any_l2();
    let keep = copy_l2(&d);
    env.verif_set_level_2_data(d);
    let mut se = StepEnv { env, rng: Xoroshiro128StarStar::seed_from_u64(0) };
    vcheck!(se.time() == p.t, "PY.time_is_the_core_clock");
    vcheck!(se.bid_vol() == keep.bid_vol && se.ask_vol() == keep.ask_vol, "PY.total_volumes_from_the_step_snapshot");
    vcheck!(se.best_bid_vol() == keep.bid_price_levels[0].0 && se.best_ask_vol() == keep.ask_price_levels[0].0, "PY.touch_volumes_from_the_step_snapshot");
    vcheck!(se.best_bid_vol_and_orders() == keep.bid_price_levels[0] && se.best_ask_vol_and_orders() == keep.ask_price_levels[0], "PY.touch_volume_and_count_from_the_step_snapshot");
    vcheck!(se.bid_ask() == (keep.bid_price, keep.ask_price), "PY.bid_ask_from_the_step_snapshot");
    vcheck!(se.trade_vol() == p.trade_vol, "PY.trade_vol_is_the_core_counter");
    let id = any_usize();
    assume(id < 2);
    let code = se.order_status(id);
    let want: u8 = match entry_order(&p.e[id]).status {
        Status::New => 0,
        Status::Active => 1,
        Status::Filled => 2,
        Status::Cancelled => 3,
        Status::Rejected => 4,
    };
    vcheck!(code == want, "PY.status_codes_0_new_1_active_2_filled_3_cancelled_4_rejected");
    vcover!(code == 4, "cover.rejected_order");
    core::mem::forget(se);
}
