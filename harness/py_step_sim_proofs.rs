//! Hooked into `rust/src/step_sim.rs` (child module: builds `StepEnv` directly).  C19 array
//! layouts and the StepEnv part of C18.
#![allow(dead_code)]
#![allow(clippy::all)]
#![cfg(kani)]
use super::*;
use crate::verif::*;
use bourse_book::types::{Level2Data, Status};
use bourse_book::verif::book::*;
use bourse_book::verif::src::*;
use bourse_book::{vcheck, vcover};

/// arbitrary market data behind the observation arrays (asymmetric: every field its own variable)
pub fn any_l2() -> Level2Data<10> {
    Level2Data {
        bid_price: any_u32(),
        ask_price: any_u32(),
        bid_vol: any_u32(),
        ask_vol: any_u32(),
        bid_price_levels: core::array::from_fn(|_| (any_u32(), any_u32())),
        ask_price_levels: core::array::from_fn(|_| (any_u32(), any_u32())),
    }
}
pub fn copy_l2(d: &Level2Data<10>) -> Level2Data<10> {
    Level2Data { bid_price: d.bid_price, ask_price: d.ask_price, bid_vol: d.bid_vol, ask_vol: d.ask_vol, bid_price_levels: d.bid_price_levels, ask_price_levels: d.ask_price_levels }
}

/// a StepEnv whose cached level-2 data and traded-volume counter are arbitrary
pub fn any_step_env() -> (StepEnv, Level2Data<10>, u32) {
    let mut env = BaseEnv::new(any_u64(), 1, any_u64(), any_bool());
    let d = any_l2();
    let keep = copy_l2(&d);
    env.verif_set_level_2_data(d);
    let tv = any_u32();
    env.verif_book_mut().verif_set_trade_vol(tv);
    (StepEnv { env, rng: Xoroshiro128StarStar::seed_from_u64(0) }, keep, tv)
}

/// the documented layout: [trade volume, bid price, ask price, bid volume, ask volume, then per
/// level: bid volume, bid order count, ask volume, ask order count]
pub fn documented_prefix(d: &Level2Data<10>, tv: u32) -> [u32; 5] {
    [tv, d.bid_price, d.ask_price, d.bid_vol, d.ask_vol]
}

#[kani::proof]
#[kani::unwind(12)]
#[kani::stub(numpy::PyArray::from_slice, stub_from_slice)]
pub fn c19_stepenv_level_1_data_array() {
    let (se, d, tv) = any_step_env();
    let py = unsafe { Python::assume_gil_acquired() };
    let _ = se.level_1_data_array(py);
    let (a, n, calls) = recorded();
    vcheck!(calls == 1, "ARRAY.one_array_built");
    vcheck!(n == 9, "ARRAY.level_1_array_has_the_documented_length_9");
    let want = documented_prefix(&d, tv);
    vcheck!(n < 1 || a[0] == want[0], "ARRAY.element_0_is_trade_volume");
    vcheck!(n < 3 || (a[1] == want[1] && a[2] == want[2]), "ARRAY.elements_1_2_are_bid_and_ask_touch_price");
    vcheck!(n < 5 || (a[3] == want[3] && a[4] == want[4]), "ARRAY.elements_3_4_are_bid_then_ask_total_volume");
    vcheck!(n < 9 || (a[5] == d.bid_price_levels[0].0 && a[6] == d.bid_price_levels[0].1 && a[7] == d.ask_price_levels[0].0 && a[8] == d.ask_price_levels[0].1),
        "ARRAY.elements_5_8_are_bid_touch_volume_count_then_ask_touch_volume_count");
    core::mem::forget(se);
}

#[kani::proof]
#[kani::unwind(48)]
#[kani::stub(numpy::PyArray::from_slice, stub_from_slice)]
pub fn c19_stepenv_level_2_data_array() {
    let (se, d, tv) = any_step_env();
    let py = unsafe { Python::assume_gil_acquired() };
    let _ = se.level_2_data_array(py);
    let (a, n, calls) = recorded();
    vcheck!(calls == 1, "ARRAY.one_array_built");
    vcheck!(n == 45, "ARRAY.level_2_array_has_the_documented_length_45");
    let want = documented_prefix(&d, tv);
    vcheck!(n < 1 || a[0] == want[0], "ARRAY.element_0_is_trade_volume");
    vcheck!(n < 3 || (a[1] == want[1] && a[2] == want[2]), "ARRAY.elements_1_2_are_bid_and_ask_touch_price");
    vcheck!(n < 5 || (a[3] == want[3] && a[4] == want[4]), "ARRAY.elements_3_4_are_bid_then_ask_total_volume");
    let mut ok = n == 45;
    let mut l = 0;
    while l < 10 {
        if n == 45 {
            ok &= a[5 + 4 * l] == d.bid_price_levels[l].0 && a[6 + 4 * l] == d.bid_price_levels[l].1;
            ok &= a[7 + 4 * l] == d.ask_price_levels[l].0 && a[8 + 4 * l] == d.ask_price_levels[l].1;
        }
        l += 1;
    }
    vcheck!(ok, "ARRAY.per_level_block_is_bid_volume_bid_count_ask_volume_ask_count");
    core::mem::forget(se);
}

/// C18: scalar getters and status codes of StepEnv are transparent views of the core
#[kani::proof]
#[kani::unwind(12)]
pub fn c18_stepenv_getters() {
    let p: Plain<3> = gen_plain::<3>(2, OFF);
    let book = build::<3, 10>(&p, 0);
    let mut env: BaseEnv = BaseEnv::verif_from_book(any_u64(), book);
    let d = any_l2();
    let keep = copy_l2(&d);
    env.verif_set_level_2_data(d);
    let mut se = StepEnv { env, rng: Xoroshiro128StarStar::seed_from_u64(0) };
    vcheck!(se.time() == p.t, "PY.time_is_the_core_clock");
    vcheck!(se.bid_vol() == keep.bid_vol && se.ask_vol() == keep.ask_vol, "PY.total_volumes_from_the_step_snapshot");
    vcheck!(se.best_bid_vol() == keep.bid_price_levels[0].0 && se.best_ask_vol() == keep.ask_price_levels[0].0, "PY.touch_volumes_from_the_step_snapshot");
    vcheck!(se.best_bid_vol_and_orders() == keep.bid_price_levels[0] && se.best_ask_vol_and_orders() == keep.ask_price_levels[0], "PY.touch_volume_and_count_from_the_step_snapshot");
    vcheck!(se.bid_ask() == (keep.bid_price, keep.ask_price), "PY.bid_ask_from_the_step_snapshot");
    vcheck!(se.trade_vol() == p.trade_vol, "PY.trade_vol_is_the_core_counter");
    let id = any_usize();
    assume(id < 2);
    let code = se.order_status(id);
    let want: u8 = match entry_order(&p.e[id]).status {
        Status::New => 0,
        Status::Active => 1,
        Status::Filled => 2,
        Status::Cancelled => 3,
        Status::Rejected => 4,
    };
    vcheck!(code == want, "PY.status_codes_0_new_1_active_2_filled_3_cancelled_4_rejected");
    vcover!(code == 4, "cover.rejected_order");
    core::mem::forget(se);
}

/// C18: `StepEnv.step` drives the core environment with the object's OWN generator: after a step
/// over three queued instructions the object's generator is where a generator with the same seed is
/// after shuffling three items (the shuffle's word consumption does not depend on the items), and
/// `place_order` / `cancel_order` / `modify_order` queue exactly the submitted instruction.
#[kani::proof]
#[kani::unwind(12)]
#[kani::stub(pyo3::exceptions::PyValueError::new_err, crate::order_book::verif_proofs::stub_new_err)]
#[kani::stub(bourse_book::OrderBook::process_event, bourse_book::OrderBook::verif_log_event)]
pub fn c18_stepenv_step_uses_its_own_generator() {
    // (the seed is concrete: with a symbolic Xoroshiro state the shuffle's rejection loop has no
    // bound; what is decided is the wiring - whose generator is advanced - not the generator)
    let seed: u64 = 0x9E37_79B9_7F4A_7C15;
    let t = any_u64();
    assume(t < (1u64 << 62));
    let step = any_u64();
    assume(step >= 4 && step < (1u64 << 62));
    let mut se = StepEnv { env: BaseEnv::new(t, 1, step, any_bool()), rng: Xoroshiro128StarStar::seed_from_u64(seed) };
    let vol = any_u32();
    let trader = any_u32();
    let id = any_usize();
    let nv = any_u32();
    let r = se.place_order(true, vol, trader, None);
    let ok = matches!(&r, Ok(0));
    core::mem::forget(r);
    vcheck!(ok, "PY.place_order_returns_the_cores_id");
    let r = se.cancel_order(id);
    core::mem::forget(r);
    let r = se.modify_order(id, None, Some(nv));
    core::mem::forget(r);
    vcheck!(se.env.verif_queue_len() == 3 && se.env.verif_queued(0) == (0, 0, None, None) && se.env.verif_queued(1) == (1, id, None, None) && se.env.verif_queued(2) == (2, id, None, Some(nv)),
        "PY.submissions_queue_exactly_the_submitted_instructions");
    let o = se.env.order(0);
    vcheck!(matches!(o.side, bourse_book::types::Side::Bid) && o.vol == vol && o.trader_id == trader && o.price == Price::MAX, "PY.true_means_bid_and_arguments_are_forwarded_unchanged");
    let r = se.step();
    core::mem::forget(r);
    let mut expect = Xoroshiro128StarStar::seed_from_u64(seed);
    bourse_de::verif::shuffle_n(&mut expect, 3);
    vcheck!(se.rng == expect, "PY.step_advances_the_objects_own_generator");
    vcheck!(se.env.get_orderbook().get_trades().len() == 3 && se.env.verif_queue_len() == 0, "PY.step_processes_the_whole_batch");
    vcheck!(se.time() == t + step, "PY.time_is_the_core_clock");
    core::mem::forget(se);
}

/// C18: an off-grid price makes `StepEnv.place_order` raise (exactly one ValueError is built) and
/// leaves the environment exactly as it was: no order record, nothing queued; an on-grid price queues
/// exactly one New instruction for the freshly created order
#[kani::proof]
#[kani::unwind(12)]
#[kani::stub(pyo3::exceptions::PyValueError::new_err, crate::order_book::verif_proofs::stub_new_err_counted)]
#[kani::stub(core::fmt::write, crate::order_book::verif_proofs::stub_fmt_write)]
pub fn c18_stepenv_place_any_price_tick3() {
    let t = any_u64();
    let step = any_u64();
    let mut se = StepEnv { env: BaseEnv::new(t, 3, step, any_bool()), rng: Xoroshiro128StarStar::seed_from_u64(0) };
    let bid = any_bool();
    let vol = any_u32();
    let trader = any_u32();
    let price = any_u32();
    let got = se.place_order(bid, vol, trader, Some(price));
    let built = unsafe { crate::order_book::verif_proofs::ERRS_BUILT };
    if price % 3 == 0 {
        let ok = matches!(&got, Ok(0));
        vcheck!(ok && built == 0, "PY.place_order_returns_the_cores_id");
        vcheck!(se.env.verif_queue_len() == 1 && se.env.verif_queued(0) == (0, 0, None, None), "PY.submissions_queue_exactly_the_submitted_instructions");
        let o = se.env.order(0);
        vcheck!(matches!(o.side, bourse_book::types::Side::Bid) == bid && o.vol == vol && o.trader_id == trader && o.price == price && o.status == Status::New,
            "PY.true_means_bid_and_arguments_are_forwarded_unchanged");
    } else {
        vcheck!(got.is_err() && built == 1, "PY.off_grid_price_raises_one_value_error");
        vcheck!(se.env.verif_queue_len() == 0 && se.env.get_orderbook().verif_n_orders() == 0, "PY.environment_unchanged_after_a_rejected_submission");
    }
    vcheck!(se.time() == t && se.bid_ask() == (0, Price::MAX), "PY.environment_unchanged_after_a_rejected_submission");
    core::mem::forget(got);
    vcover!(price % 3 != 0, "cover.off_grid_price_rejected");
    vcover!(price % 3 == 0 && price > 0, "cover.on_grid_limit_order_queued");
    core::mem::forget(se);
}
