//! Hooked into `crates/step_sim/tests/test_macros.rs` (the derives emit `impl bourse_de::...`, so
//! they can only be expanded outside `bourse_de`).  C20: the real `#[derive(AgentSet)]` /
//! `#[derive(MarketAgentSet)]` expansions of enumerated struct shapes, run on a symbolic generator.
#![allow(dead_code)]
#![cfg(kani)]
use bourse_book::types::{Side, Status};
use bourse_book::verif::src::*;
use bourse_book::{vcheck, vcover};
use bourse_de::agents::{Agent, AgentSet, MarketAgent, MarketAgentSet};
use bourse_de::verif::SymRng;
use bourse_de::{Env, MarketEnv};
use rand::RngCore;

/// Probe agent: draws ONE word from the generator it is handed and submits one market order whose
/// volume encodes that word and whose trader id is the probe's tag.
pub struct Probe {
    tag: u32,
}
/// a second agent type (submits on the other side) for mixed-type shapes
pub struct ProbeB {
    tag: u32,
}
pub fn vol_of(w: u32) -> u32 {
    if w == 0 {
        1
    } else {
        w
    }
}
impl Agent for Probe {
    fn update<R: RngCore>(&mut self, env: &mut Env, rng: &mut R) {
        let w = rng.next_u32();
        env.place_order(Side::Ask, vol_of(w), self.tag, None).unwrap();
    }
}
impl Agent for ProbeB {
    fn update<R: RngCore>(&mut self, env: &mut Env, rng: &mut R) {
        let w = rng.next_u32();
        env.place_order(Side::Bid, vol_of(w), self.tag, None).unwrap();
    }
}
/// market-environment probes (a type implementing both traits would make the generated
/// `self.field.update(..)` ambiguous)
pub struct MProbe {
    tag: u32,
}
pub struct MProbeB {
    tag: u32,
}
impl MarketAgent for MProbe {
    fn update<R: RngCore, const M: usize, const N: usize>(&mut self, env: &mut MarketEnv<M, N>, rng: &mut R) {
        let w = rng.next_u32();
        env.place_order(0, Side::Ask, vol_of(w), self.tag, None).unwrap();
    }
}
impl MarketAgent for MProbeB {
    fn update<R: RngCore, const M: usize, const N: usize>(&mut self, env: &mut MarketEnv<M, N>, rng: &mut R) {
        let w = rng.next_u32();
        env.place_order(0, Side::Bid, vol_of(w), self.tag, None).unwrap();
    }
}

#[derive(AgentSet)]
pub struct S1 {
    a: Probe,
}
#[derive(AgentSet)]
pub struct S2 {
    a: Probe,
    b: ProbeB,
}
#[derive(AgentSet)]
pub struct S3 {
    a: Probe,
    b: Probe,
    c: ProbeB,
}
#[derive(AgentSet)]
pub struct S4 {
    pub a: ProbeB,
    pub b: Probe,
    pub c: Probe,
    pub d: ProbeB,
}
/// a field that is itself a derived set (accepted by the derive because the set's own `update` has
/// the member signature; compiled only with `--cfg verif_nested` so that a derive that rejects such
/// members cannot take the other shapes' harnesses down with it)
#[cfg(verif_nested)]
#[derive(AgentSet)]
pub struct Nested {
    x: Probe,
    inner: S2,
    y: ProbeB,
}
#[derive(AgentSet)]
pub struct S8 {
    a: Probe,
    b: ProbeB,
    c: Probe,
    d: Probe,
    e: ProbeB,
    f: ProbeB,
    g: Probe,
    h: ProbeB,
}
/// field names not in alphabetical order, and a one-line struct without a trailing comma
#[derive(AgentSet)]
pub struct Unsorted {
    zeta: Probe,
    mid: ProbeB,
    alpha: Probe,
}
#[rustfmt::skip]
#[derive(AgentSet)]
pub struct NoComma { first: ProbeB, second: Probe }
#[rustfmt::skip]
#[derive(AgentSet)]
pub struct Single { only: Probe }
#[derive(MarketAgentSet)]
pub struct MUnsorted {
    zeta: MProbe,
    mid: MProbeB,
    alpha: MProbe,
}
#[rustfmt::skip]
#[derive(MarketAgentSet)]
pub struct MNoComma { first: MProbeB, second: MProbe }
#[rustfmt::skip]
#[derive(MarketAgentSet)]
pub struct MSingle { only: MProbe }

#[derive(MarketAgentSet)]
pub struct M1 {
    a: MProbe,
}
#[derive(MarketAgentSet)]
pub struct M3 {
    a: MProbe,
    b: MProbeB,
    c: MProbe,
}
#[cfg(verif_nested)]
#[derive(MarketAgentSet)]
pub struct MNested {
    x: MProbeB,
    inner: M3,
    y: MProbe,
}
#[derive(MarketAgentSet)]
pub struct M8 {
    a: MProbeB,
    b: MProbe,
    c: MProbe,
    d: MProbeB,
    e: MProbe,
    f: MProbeB,
    g: MProbeB,
    h: MProbe,
}

/// fields carrying what real declarations carry: line and block doc comments (prose that mentions
/// skipping, ignoring, defaults, agents ...), lint / cfg / doc attributes, visibilities, a raw
/// identifier, and members named like the generated method's own parameters
#[derive(AgentSet)]
pub struct Decorated5 {
    /// Market makers. They may skip a turn when the book is empty.
    pub makers: Probe,
    /** Takers never ignore an update; see the `agents` docs (default: on). */
    pub(crate) takers: ProbeB,
    #[allow(dead_code)]
    r#type: Probe,
    #[cfg(all())]
    #[doc = "noise traders, skipped in tests"]
    env: ProbeB,
    // a plain comment
    rng: Probe,
}
#[derive(AgentSet)]
pub struct Plain6 {
    update: ProbeB,
    b: ProbeB,
    c: Probe,
    d: ProbeB,
    e: Probe,
    f: Probe,
}
#[derive(AgentSet)]
pub struct Plain7 {
    g: Probe,
    f: Probe,
    e: ProbeB,
    d: Probe,
    c: ProbeB,
    b: ProbeB,
    a: Probe,
}
#[derive(MarketAgentSet)]
pub struct MDecorated5 {
    /// Market makers. They may skip a turn when the book is empty.
    pub makers: MProbe,
    /** Takers never ignore an update; see the `agents` docs (default: on). */
    pub(crate) takers: MProbeB,
    #[allow(dead_code)]
    r#type: MProbe,
    #[cfg(all())]
    #[doc = "noise traders, skipped in tests"]
    env: MProbeB,
    // a plain comment
    rng: MProbe,
}
#[derive(MarketAgentSet)]
pub struct MPlain6 {
    update: MProbeB,
    b: MProbeB,
    c: MProbe,
    d: MProbeB,
    e: MProbe,
    f: MProbe,
}
#[derive(MarketAgentSet)]
pub struct MPlain7 {
    g: MProbe,
    f: MProbe,
    e: MProbeB,
    d: MProbe,
    c: MProbeB,
    b: MProbeB,
    a: MProbe,
}

fn mk_env() -> Env {
    let t = any_u64();
    let step = any_u64();
    Env::new(t, 1, step, any_bool())
}
fn mk_menv() -> MarketEnv<2, 2> {
    let t = any_u64();
    let step = any_u64();
    MarketEnv::<2, 2>::new(t, [1, 1], step, any_bool())
}

/// after one `update` of a set with `n` probes: order k was submitted by tag k+1, carries word k,
/// on the side of that field's type; the generator was advanced exactly n times
fn audit(env: &Env, rng: &SymRng, n: usize, bid: &[bool]) {
    vcheck!(env.get_orderbook().verif_n_orders() == n, "SET.one_order_per_member");
    vcheck!(env.verif_queue_len() == n, "SET.one_instruction_per_member");
    vcheck!(rng.calls == n, "SET.generator_advanced_once_per_member");
    let mut ok_tag = true;
    let mut ok_word = true;
    let mut ok_side = true;
    let mut k = 0;
    while k < n {
        if k < env.get_orderbook().verif_n_orders() {
            let o = env.order(k);
            ok_tag &= o.trader_id == (k as u32) + 1;
            ok_word &= o.vol == vol_of(rng.log[k] as u32);
            ok_side &= matches!(o.side, Side::Bid) == bid[k];
            ok_side &= o.status == Status::New;
        }
        k += 1;
    }
    vcheck!(ok_tag, "SET.members_updated_in_declaration_order");
    vcheck!(ok_word, "SET.draw_k_went_to_member_k_shared_generator");
    vcheck!(ok_side, "SET.each_member_ran_its_own_update");
}
fn same_orders(a: &Env, b: &Env, n: usize) -> bool {
    let mut ok = a.get_orderbook().verif_n_orders() == b.get_orderbook().verif_n_orders();
    let mut k = 0;
    while k < n {
        if k < a.get_orderbook().verif_n_orders() && k < b.get_orderbook().verif_n_orders() {
            let (x, y) = (a.order(k), b.order(k));
            ok &= x.trader_id == y.trader_id && x.vol == y.vol && matches!(x.side, Side::Bid) == matches!(y.side, Side::Bid) && x.price == y.price;
        }
        k += 1;
    }
    ok
}
fn maudit(env: &MarketEnv<2, 2>, rng: &SymRng, n: usize, bid: &[bool]) {
    let b = env.get_market().get_order_book(0);
    vcheck!(b.verif_n_orders() == n && env.get_market().get_order_book(1).verif_n_orders() == 0, "SET.one_order_per_member");
    vcheck!(rng.calls == n, "SET.generator_advanced_once_per_member");
    let mut ok_tag = true;
    let mut ok_word = true;
    let mut ok_side = true;
    let mut k = 0;
    while k < n {
        if k < b.verif_n_orders() {
            let o = env.order((0, k));
            ok_tag &= o.trader_id == (k as u32) + 1;
            ok_word &= o.vol == vol_of(rng.log[k] as u32);
            ok_side &= matches!(o.side, Side::Bid) == bid[k];
        }
        k += 1;
    }
    vcheck!(ok_tag, "SET.members_updated_in_declaration_order");
    vcheck!(ok_word, "SET.draw_k_went_to_member_k_shared_generator");
    vcheck!(ok_side, "SET.each_member_ran_its_own_update");
}

#[kani::proof]
#[kani::unwind(12)]
pub fn c20_agentset_1_2_3() {
    // shape 1
    let mut env = mk_env();
    let mut rng = SymRng::new();
    let mut s = S1 { a: Probe { tag: 1 } };
    AgentSet::update(&mut s, &mut env, &mut rng);
    audit(&env, &rng, 1, &[false]);
    // shape 2: two different member types
    let mut env = mk_env();
    let mut rng = SymRng::new();
    let mut s = S2 { a: Probe { tag: 1 }, b: ProbeB { tag: 2 } };
    AgentSet::update(&mut s, &mut env, &mut rng);
    audit(&env, &rng, 2, &[false, true]);
    // shape 3: repeated type + hand-written equivalent on a twin environment
    let t = any_u64();
    let step = any_u64();
    let tr = any_bool();
    let mut env = Env::new(t, 1, step, tr);
    let mut twin = Env::new(t, 1, step, tr);
    let mut rng = SymRng::new();
    rng.push_u32();
    rng.push_u32();
    rng.push_u32();
    let mut rng2 = rng;
    let mut s = S3 { a: Probe { tag: 1 }, b: Probe { tag: 2 }, c: ProbeB { tag: 3 } };
    AgentSet::update(&mut s, &mut env, &mut rng);
    let mut h = S3 { a: Probe { tag: 1 }, b: Probe { tag: 2 }, c: ProbeB { tag: 3 } };
    Agent::update(&mut h.a, &mut twin, &mut rng2);
    Agent::update(&mut h.b, &mut twin, &mut rng2);
    Agent::update(&mut h.c, &mut twin, &mut rng2);
    audit(&env, &rng, 3, &[false, false, true]);
    vcheck!(same_orders(&env, &twin, 3) && rng.calls == rng2.calls, "SET.interchangeable_with_hand_written_sequence");
    vcover!(env.order(0).vol != env.order(1).vol, "cover.distinct_words");
}

#[kani::proof]
#[kani::unwind(12)]
pub fn c20_agentset_4() {
    let mut env = mk_env();
    let mut rng = SymRng::new();
    let mut s = S4 { a: ProbeB { tag: 1 }, b: Probe { tag: 2 }, c: Probe { tag: 3 }, d: ProbeB { tag: 4 } };
    AgentSet::update(&mut s, &mut env, &mut rng);
    audit(&env, &rng, 4, &[true, false, false, true]);
    vcover!(env.order(3).vol == 7, "cover.reached_end");
}

#[cfg(verif_nested)]
#[kani::proof]
#[kani::unwind(12)]
pub fn c20_agentset_nested() {
    // a member that is itself a derived set: its members run in place, in order
    let mut env = mk_env();
    let mut rng = SymRng::new();
    let mut s = Nested { x: Probe { tag: 1 }, inner: S2 { a: Probe { tag: 2 }, b: ProbeB { tag: 3 } }, y: ProbeB { tag: 4 } };
    AgentSet::update(&mut s, &mut env, &mut rng);
    audit(&env, &rng, 4, &[false, false, true, true]);
    vcover!(env.order(3).vol == 7, "cover.reached_end");
}

#[kani::proof]
#[kani::unwind(12)]
pub fn c20_agentset_8() {
    let mut env = mk_env();
    let mut rng = SymRng::new();
    let mut s = S8 {
        a: Probe { tag: 1 },
        b: ProbeB { tag: 2 },
        c: Probe { tag: 3 },
        d: Probe { tag: 4 },
        e: ProbeB { tag: 5 },
        f: ProbeB { tag: 6 },
        g: Probe { tag: 7 },
        h: ProbeB { tag: 8 },
    };
    AgentSet::update(&mut s, &mut env, &mut rng);
    audit(&env, &rng, 8, &[false, true, false, false, true, true, false, true]);
    vcover!(env.order(7).vol == 7, "cover.reached_end");
}

#[kani::proof]
#[kani::unwind(12)]
pub fn c20_marketagentset_1_3() {
    let mut env = mk_menv();
    let mut rng = SymRng::new();
    let mut s = M1 { a: MProbe { tag: 1 } };
    MarketAgentSet::update(&mut s, &mut env, &mut rng);
    maudit(&env, &rng, 1, &[false]);
    let mut env = mk_menv();
    let mut rng = SymRng::new();
    let mut s = M3 { a: MProbe { tag: 1 }, b: MProbeB { tag: 2 }, c: MProbe { tag: 3 } };
    MarketAgentSet::update(&mut s, &mut env, &mut rng);
    maudit(&env, &rng, 3, &[false, true, false]);
    vcover!(env.order((0, 2)).vol == 7, "cover.reached_end");
}

#[cfg(verif_nested)]
#[kani::proof]
#[kani::unwind(12)]
pub fn c20_marketagentset_nested() {
    let mut env = mk_menv();
    let mut rng = SymRng::new();
    let mut s = MNested { x: MProbeB { tag: 1 }, inner: M3 { a: MProbe { tag: 2 }, b: MProbeB { tag: 3 }, c: MProbe { tag: 4 } }, y: MProbe { tag: 5 } };
    MarketAgentSet::update(&mut s, &mut env, &mut rng);
    maudit(&env, &rng, 5, &[true, false, true, false, false]);
    vcover!(env.order((0, 4)).vol == 7, "cover.reached_end");
}

#[kani::proof]
#[kani::unwind(12)]
pub fn c20_marketagentset_8() {
    let mut env = mk_menv();
    let mut rng = SymRng::new();
    let mut s = M8 {
        a: MProbeB { tag: 1 },
        b: MProbe { tag: 2 },
        c: MProbe { tag: 3 },
        d: MProbeB { tag: 4 },
        e: MProbe { tag: 5 },
        f: MProbeB { tag: 6 },
        g: MProbeB { tag: 7 },
        h: MProbe { tag: 8 },
    };
    MarketAgentSet::update(&mut s, &mut env, &mut rng);
    maudit(&env, &rng, 8, &[true, false, false, true, false, true, true, false]);
    vcover!(env.order((0, 7)).vol == 7, "cover.reached_end");
}

#[kani::proof]
#[kani::unwind(12)]
pub fn c20_agentset_names_and_commas() {
    let mut env = mk_env();
    let mut rng = SymRng::new();
    let mut s = Unsorted { zeta: Probe { tag: 1 }, mid: ProbeB { tag: 2 }, alpha: Probe { tag: 3 } };
    AgentSet::update(&mut s, &mut env, &mut rng);
    audit(&env, &rng, 3, &[false, true, false]);
    let mut env = mk_env();
    let mut rng = SymRng::new();
    let mut s = NoComma { first: ProbeB { tag: 1 }, second: Probe { tag: 2 } };
    AgentSet::update(&mut s, &mut env, &mut rng);
    audit(&env, &rng, 2, &[true, false]);
    let mut env = mk_env();
    let mut rng = SymRng::new();
    let mut s = Single { only: Probe { tag: 1 } };
    AgentSet::update(&mut s, &mut env, &mut rng);
    audit(&env, &rng, 1, &[false]);
    vcover!(env.order(0).vol == 7, "cover.reached_end");
}

#[kani::proof]
#[kani::unwind(12)]
pub fn c20_marketagentset_names_and_commas() {
    let mut env = mk_menv();
    let mut rng = SymRng::new();
    let mut s = MUnsorted { zeta: MProbe { tag: 1 }, mid: MProbeB { tag: 2 }, alpha: MProbe { tag: 3 } };
    MarketAgentSet::update(&mut s, &mut env, &mut rng);
    maudit(&env, &rng, 3, &[false, true, false]);
    let mut env = mk_menv();
    let mut rng = SymRng::new();
    let mut s = MNoComma { first: MProbeB { tag: 1 }, second: MProbe { tag: 2 } };
    MarketAgentSet::update(&mut s, &mut env, &mut rng);
    maudit(&env, &rng, 2, &[true, false]);
    let mut env = mk_menv();
    let mut rng = SymRng::new();
    let mut s = MSingle { only: MProbe { tag: 1 } };
    MarketAgentSet::update(&mut s, &mut env, &mut rng);
    maudit(&env, &rng, 1, &[false]);
    vcover!(env.order((0, 0)).vol == 7, "cover.reached_end");
}

#[kani::proof]
#[kani::unwind(12)]
pub fn c20_agentset_decorated_5_6_7() {
    let mut env = mk_env();
    let mut rng = SymRng::new();
    let mut s = Decorated5 { makers: Probe { tag: 1 }, takers: ProbeB { tag: 2 }, r#type: Probe { tag: 3 }, env: ProbeB { tag: 4 }, rng: Probe { tag: 5 } };
    AgentSet::update(&mut s, &mut env, &mut rng);
    audit(&env, &rng, 5, &[false, true, false, true, false]);
    let mut env = mk_env();
    let mut rng = SymRng::new();
    let mut s = Plain6 { update: ProbeB { tag: 1 }, b: ProbeB { tag: 2 }, c: Probe { tag: 3 }, d: ProbeB { tag: 4 }, e: Probe { tag: 5 }, f: Probe { tag: 6 } };
    AgentSet::update(&mut s, &mut env, &mut rng);
    audit(&env, &rng, 6, &[true, true, false, true, false, false]);
    let mut env = mk_env();
    let mut rng = SymRng::new();
    let mut s = Plain7 { g: Probe { tag: 1 }, f: Probe { tag: 2 }, e: ProbeB { tag: 3 }, d: Probe { tag: 4 }, c: ProbeB { tag: 5 }, b: ProbeB { tag: 6 }, a: Probe { tag: 7 } };
    AgentSet::update(&mut s, &mut env, &mut rng);
    audit(&env, &rng, 7, &[false, false, true, false, true, true, false]);
    vcover!(env.order(6).vol == 7, "cover.reached_end");
}

#[kani::proof]
#[kani::unwind(12)]
pub fn c20_marketagentset_decorated_5_6_7() {
    let mut env = mk_menv();
    let mut rng = SymRng::new();
    let mut s = MDecorated5 { makers: MProbe { tag: 1 }, takers: MProbeB { tag: 2 }, r#type: MProbe { tag: 3 }, env: MProbeB { tag: 4 }, rng: MProbe { tag: 5 } };
    MarketAgentSet::update(&mut s, &mut env, &mut rng);
    maudit(&env, &rng, 5, &[false, true, false, true, false]);
    let mut env = mk_menv();
    let mut rng = SymRng::new();
    let mut s = MPlain6 { update: MProbeB { tag: 1 }, b: MProbeB { tag: 2 }, c: MProbe { tag: 3 }, d: MProbeB { tag: 4 }, e: MProbe { tag: 5 }, f: MProbe { tag: 6 } };
    MarketAgentSet::update(&mut s, &mut env, &mut rng);
    maudit(&env, &rng, 6, &[true, true, false, true, false, false]);
    let mut env = mk_menv();
    let mut rng = SymRng::new();
    let mut s = MPlain7 { g: MProbe { tag: 1 }, f: MProbe { tag: 2 }, e: MProbeB { tag: 3 }, d: MProbe { tag: 4 }, c: MProbeB { tag: 5 }, b: MProbeB { tag: 6 }, a: MProbe { tag: 7 } };
    MarketAgentSet::update(&mut s, &mut env, &mut rng);
    maudit(&env, &rng, 7, &[false, false, true, false, true, true, false]);
    vcover!(env.order((0, 6)).vol == 7, "cover.reached_end");
}

