//! Bounded sorted-array ordered map standing in for `std::collections::BTreeMap`
//! under `cfg(kani)` only (see DESIGN.md §2.2).  It implements exactly the API
//! subset `side.rs` uses, with `BTreeMap`'s documented semantics: keys ordered by
//! `Ord`, `insert` on an existing key replaces the value and returns the old one.
//! Capacity overflow is an `assert!`, so it can never be exceeded silently.
#[cfg(verif_cap4)]
pub const CAP: usize = 4;
#[cfg(not(verif_cap4))]
pub const CAP: usize = 3;

#[derive(Clone, Copy)]
pub struct BTreeMap<K: Copy + Ord + Default, V: Copy + Default> {
    len: usize,
    keys: [K; CAP],
    vals: [V; CAP],
}

impl<K: Copy + Ord + Default, V: Copy + Default> Default for BTreeMap<K, V> {
    fn default() -> Self {
        Self {
            len: 0,
            keys: [K::default(); CAP],
            vals: [V::default(); CAP],
        }
    }
}

impl<K: Copy + Ord + Default, V: Copy + Default> BTreeMap<K, V> {
    // All loops run over the CAP concrete slots with data-independent control flow (no early
    // exit, no symbolic array index): the symbolic executor sees straight-line selects instead of
    // path splits, which keeps formulas small.  Semantics are those of a sorted-array map.

    /// (number of stored keys smaller than k, whether k is stored)
    fn pos(&self, k: &K) -> (usize, bool) {
        let mut p = 0;
        let mut found = false;
        let mut i = 0;
        while i < CAP {
            if i < self.len {
                if self.keys[i] < *k {
                    p += 1;
                }
                if self.keys[i] == *k {
                    found = true;
                }
            }
            i += 1;
        }
        (p, found)
    }
    pub fn insert(&mut self, k: K, v: V) -> Option<V> {
        let (p, found) = self.pos(&k);
        if found {
            let mut old = v;
            let mut i = 0;
            while i < CAP {
                if i == p {
                    old = self.vals[i];
                    self.vals[i] = v;
                }
                i += 1;
            }
            return Some(old);
        }
        assert!(self.len < CAP, "verif map capacity exceeded");
        let mut i = CAP - 1;
        while i > 0 {
            if i > p {
                self.keys[i] = self.keys[i - 1];
                self.vals[i] = self.vals[i - 1];
            }
            i -= 1;
        }
        let mut i = 0;
        while i < CAP {
            if i == p {
                self.keys[i] = k;
                self.vals[i] = v;
            }
            i += 1;
        }
        self.len += 1;
        None
    }
    pub fn remove(&mut self, k: &K) -> Option<V> {
        let (p, found) = self.pos(k);
        if !found {
            return None;
        }
        let mut old = self.vals[0];
        let mut i = 0;
        while i < CAP {
            if i == p {
                old = self.vals[i];
            }
            if i >= p && i + 1 < CAP {
                self.keys[i] = self.keys[i + 1];
                self.vals[i] = self.vals[i + 1];
            }
            i += 1;
        }
        self.len -= 1;
        Some(old)
    }
    pub fn get(&self, k: &K) -> Option<&V> {
        let (p, found) = self.pos(k);
        if found {
            Some(&self.vals[p])
        } else {
            None
        }
    }
    pub fn get_mut(&mut self, k: &K) -> Option<&mut V> {
        let (p, found) = self.pos(k);
        if found {
            Some(&mut self.vals[p])
        } else {
            None
        }
    }
    pub fn contains_key(&self, k: &K) -> bool {
        self.pos(k).1
    }
    pub fn first_key_value(&self) -> Option<(&K, &V)> {
        if self.len == 0 {
            None
        } else {
            Some((&self.keys[0], &self.vals[0]))
        }
    }
    pub fn last_key_value(&self) -> Option<(&K, &V)> {
        if self.len == 0 {
            None
        } else {
            Some((&self.keys[self.len - 1], &self.vals[self.len - 1]))
        }
    }
    pub fn len(&self) -> usize {
        self.len
    }
    pub fn is_empty(&self) -> bool {
        self.len == 0
    }
    /// i-th entry in key order (harness observation only)
    pub fn verif_nth(&self, i: usize) -> Option<(K, V)> {
        if i < self.len {
            Some((self.keys[i], self.vals[i]))
        } else {
            None
        }
    }
}
