//! Hooked into `crates/step_sim/src/agents/mod.rs`: registry of the agent harness modules (the
//! agent modules are private to `agents`, so the by-name lookup for native replay lives here).
#![allow(dead_code)]
#[cfg(not(kani))]
pub fn lookup(name: &str) -> Option<fn()> {
    super::random_agent::verif_proofs::lookup(name)
        .or_else(|| super::noise_agent::verif_proofs::lookup(name))
        .or_else(|| super::momentum_agent::verif_proofs::lookup(name))
}
