//! bourse_de::verif — support shared by the harnesses of the step_sim crate, and the harness
//! registry of this crate for native replay.
#![allow(dead_code)]
use bourse_book::verif::src::*;
use rand::RngCore;

/// Number of pre-drawn words a `SymRng` can hold.
pub const RNG_WORDS: usize = 12;

/// Symbolic random generator (DESIGN.md §2.3): every word is an arbitrary value.
///
/// * `pre[..npre]` are words drawn by the harness *before* the code under test runs, so that the
///   harness can constrain them (e.g. "accepted at first draw by `sample_single_inclusive`");
///   they are handed out first, in order.
/// * once they are used up, every further call draws a fresh arbitrary word.
/// * `calls` counts every `next_u32`/`next_u64` call (C15 L5, C20: who drew what).
#[derive(Clone, Copy)]
pub struct SymRng {
    pub pre: [u64; RNG_WORDS],
    pub npre: usize,
    pub calls: usize,
    /// when set, running out of pre-drawn words is a harness error (the code drew more than stated)
    pub strict: bool,
    pub overdrawn: bool,
    /// log of the words handed out (first RNG_WORDS)
    pub log: [u64; RNG_WORDS],
}

impl SymRng {
    pub fn new() -> Self {
        SymRng { pre: [0; RNG_WORDS], npre: 0, calls: 0, strict: false, overdrawn: false, log: [0; RNG_WORDS] }
    }
    /// pre-draw one arbitrary 32-bit word
    pub fn push_u32(&mut self) -> u32 {
        let w = any_u32();
        self.pre[self.npre] = w as u64;
        self.npre += 1;
        w
    }
    /// pre-draw one arbitrary 64-bit word
    pub fn push_u64(&mut self) -> u64 {
        let w = any_u64();
        self.pre[self.npre] = w;
        self.npre += 1;
        w
    }
    fn next_word(&mut self, wide: bool) -> u64 {
        let w = if self.calls < self.npre {
            self.pre[self.calls]
        } else {
            if self.strict {
                self.overdrawn = true;
            }
            if wide {
                any_u64()
            } else {
                any_u32() as u64
            }
        };
        if self.calls < RNG_WORDS {
            self.log[self.calls] = w;
        }
        self.calls += 1;
        w
    }
}

impl RngCore for SymRng {
    fn next_u32(&mut self) -> u32 {
        self.next_word(false) as u32
    }
    fn next_u64(&mut self) -> u64 {
        self.next_word(true)
    }
    fn fill_bytes(&mut self, dest: &mut [u8]) {
        let mut i = 0;
        while i < dest.len() {
            dest[i] = self.next_u32() as u8;
            i += 1;
        }
    }
    fn try_fill_bytes(&mut self, dest: &mut [u8]) -> Result<(), rand::Error> {
        self.fill_bytes(dest);
        Ok(())
    }
}

/// `UniformInt<u32>::sample_single_inclusive` accepts the word `v` for a range of `r` values at
/// its first draw (rand 0.8.5: `lo = v*r mod 2^32 <= (r << clz r) - 1`)
pub fn accepted_u32(v: u32, r: u32) -> bool {
    let lo = v.wrapping_mul(r);
    let zone = (r << r.leading_zeros()).wrapping_sub(1);
    lo <= zone
}
/// the index that draw yields: the high half of the 64-bit product
pub fn index_u32(v: u32, r: u32) -> u32 {
    (((v as u64) * (r as u64)) >> 32) as u32
}

/// pre-draw the n-1 words a Fisher-Yates shuffle of n items consumes, each assumed accepted at
/// first draw (a rejected word only re-enters the same loop with a fresh word)
pub fn shuffle_words(rng: &mut SymRng, n: usize) {
    let mut i = n;
    while i > 1 {
        let w = rng.push_u32();
        assume(accepted_u32(w, i as u32));
        i -= 1;
    }
}

/// advance `rng` exactly as a shuffle of `n` items does (for harnesses of crates that do not
/// depend on `rand` themselves)
pub fn shuffle_n<R: RngCore>(rng: &mut R, n: usize) {
    use rand::seq::SliceRandom;
    let mut items = [0u8; 8];
    items[..n].shuffle(rng);
}

#[cfg(not(kani))]
pub fn lookup(name: &str) -> Option<fn()> {
    crate::env::verif_proofs::lookup(name)
        .or_else(|| crate::market_env::verif_proofs::lookup(name))
        .or_else(|| crate::agents::common::verif_proofs::lookup(name))
        .or_else(|| crate::agents::verif::lookup(name))
}
