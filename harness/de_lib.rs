//! bourse_de::verif — harness registry of the step_sim crate for native replay.
#![allow(dead_code)]
#[cfg(not(kani))]
pub fn lookup(_name: &str) -> Option<fn()> {
    None
}
